package c06

import (
	"fmt"
	"os"
	"sort"
	"strconv"
	"strings"
	"testing"

	"github.com/pion/dtls/v3/zzverif/checks"
	"github.com/pion/dtls/v3/zzverif/run"
	"github.com/pion/dtls/v3/zzverif/world"
)

// C06 — anti-replay.
//
// Enumerated (every execution = one arrival sequence on a FRESH pair of real endpoints):
//   small windows  variant x W in {1,2,3,4} x EVERY arrival sequence with repetitions of length L over
//                  the n captured application-data records (the oracle is evaluated after every arrival,
//                  so every sequence of length < L is decided as a prefix);
//   window edge    default window (64) and an explicitly configured 64: n=70 records, a head that brings
//                  the newest accepted record to index N in {63..66} (in-order prefix with / without the
//                  "older" record, or a single jump to N), then EVERY tail of length 3 over
//                  {older, newest again, newest+1} for older = N-d, d in {61..66};
//   key update     DTLS 1.3, two epochs with separate windows (see kuCases).
// Oracle: reference sliding window (ref.go): no payload returned by Read more than once; a record that at
// its first arrival is newer than everything accepted or < W behind is returned exactly once, byte-exact.

func variantByName(name string) checks.Variant {
	for _, v := range checks.AllVariants() {
		if v.Name == name {
			return v
		}
	}
	panic("no variant " + name)
}

func seqString(a []int) string {
	s := make([]string, len(a))
	for i, x := range a {
		s[i] = strconv.Itoa(x)
	}
	return strings.Join(s, ".")
}

// group is one case: a fixed scenario and a list of arrival sequences.
type group struct {
	ID   string
	Sc   scen
	Seqs [][]int
}

// allSeqs enumerates every sequence of length l over {0..n-1} that starts with prefix.
func allSeqs(n, l int, prefix []int) [][]int {
	out := [][]int{append([]int(nil), prefix...)}
	for len(out[0]) < l {
		var next [][]int
		for _, s := range out {
			for x := 0; x < n; x++ {
				next = append(next, append(append([]int(nil), s...), x))
			}
		}
		out = next
	}
	return out
}

func smallGroups(v checks.Variant, s2c, lazy bool, ws []int, n, l int) []group {
	return smallGroupsKU(v, s2c, lazy, ws, n, l, 0)
}

// smallGroupsKU: every arrival sequence of length l over n records; with ku > 0 the first ku records
// travel in the epoch before a DTLS 1.3 key update and the others in the epoch after it.
func smallGroupsKU(v checks.Variant, s2c, lazy bool, ws []int, n, l, ku int) []group {
	var gs []group
	pl := l - 3 // each case enumerates the n^3 continuations of its prefix
	if pl < 0 {
		pl = 0
	}
	for _, w := range ws {
		sc := scen{V: v, W: w, N: n, S2C: s2c, Lazy: lazy, KeyUpdateAfter: ku}
		for _, pre := range allSeqs(n, pl, nil) {
			gs = append(gs, group{ID: fmt.Sprintf("small/%s/L%d/p=%s", sc, l, seqString(pre)), Sc: sc, Seqs: allSeqs(n, l, pre)})
		}
	}
	return gs
}

func asc(from, to int) []int { // from..to inclusive
	var s []int
	for k := from; k <= to; k++ {
		s = append(s, k)
	}
	return s
}

func desc(from, to int) []int { // from down to `to` inclusive
	var s []int
	for k := from; k >= to; k-- {
		s = append(s, k)
	}
	return s
}

func cat(parts ...[]int) []int {
	var s []int
	for _, p := range parts {
		s = append(s, p...)
	}
	return s
}

// sweepGroups: one case per window size W ("every replay-window size"): n = W+3 records and a fixed family
// of arrival sequences that visits EVERY distance 0..W+1 behind the newest accepted record, both as a
// replay of an accepted record and as the first (late) arrival of a record.
func sweepGroups(v checks.Variant, s2c bool, ws []int) []group {
	var gs []group
	for _, w := range ws {
		top := w + 1
		sc := scen{V: v, W: w, N: w + 3, S2C: s2c}
		g := group{ID: "sweep/" + sc.String(), Sc: sc}
		// in order, then every record replayed, newest first / oldest first
		g.Seqs = append(g.Seqs, cat(asc(0, top), desc(top, 0)))
		g.Seqs = append(g.Seqs, cat(asc(0, top), asc(0, top), []int{top + 1}, asc(0, top+1)))
		// one jump to the newest, then every older record arrives late (twice each), nearest first
		var late []int
		for j := top - 1; j >= 0; j-- {
			late = append(late, j, j)
		}
		g.Seqs = append(g.Seqs, cat([]int{top}, late))
		// one jump, then the older records oldest first, then everything again
		g.Seqs = append(g.Seqs, cat([]int{top}, asc(0, top-1), asc(0, top)))
		// holes: even records ascending, odd records descending, then everything again
		var ev, od []int
		for k := 0; k <= top+1; k++ {
			if k%2 == 0 {
				ev = append(ev, k)
			}
		}
		for k := top + 1; k >= 0; k-- {
			if k%2 == 1 {
				od = append(od, k)
			}
		}
		g.Seqs = append(g.Seqs, cat(ev, od, asc(0, top+1)))
		// gradual shift with one record missing, which then arrives late at distance W-1, W, W+1 (twice)
		for d := w - 1; d <= w+1; d++ {
			older := top - d
			if older < 0 || older >= top {
				continue
			}
			g.Seqs = append(g.Seqs, cat(asc(0, older-1), asc(older+1, top), []int{older, older}))
		}
		// an accepted record, a jump of more than the window, the record again, then the skipped ones (twice)
		g.Seqs = append(g.Seqs, cat([]int{0, top + 1, 0}, asc(1, top), asc(0, top+1)))
		gs = append(gs, g)
	}
	return gs
}

// edgeGroups: around the edge of a 64-record window.
func edgeGroups(v checks.Variant, w int, s2c bool) []group {
	const n = 70
	var gs []group
	sc := scen{V: v, W: w, N: n, S2C: s2c}
	for _, head := range []string{"skip", "full", "jump"} {
		for newest := 63; newest <= 66; newest++ {
			g := group{ID: fmt.Sprintf("edge/%s/%s/N%d", sc, head, newest), Sc: sc}
			for d := 61; d <= 66; d++ {
				older := newest - d
				if older < 0 {
					continue
				}
				var pre []int
				switch head {
				case "skip": // in-order prefix 0..newest without `older`: its first arrival is d behind
					for k := 0; k <= newest; k++ {
						if k != older {
							pre = append(pre, k)
						}
					}
				case "full": // in-order prefix 0..newest: `older` was accepted long ago, now d behind
					for k := 0; k <= newest; k++ {
						pre = append(pre, k)
					}
				case "jump": // only `newest` was accepted: the window moved by more than its size at once
					pre = []int{newest}
				}
				// every tail of length 3 over {older, newest (again), newest+1}
				sym := []int{older, newest, newest + 1}
				for _, tail := range allSeqs(3, 3, nil) {
					s := append([]int(nil), pre...)
					for _, x := range tail {
						s = append(s, sym[x])
					}
					g.Seqs = append(g.Seqs, s)
				}
			}
			gs = append(gs, g)
		}
	}
	return gs
}

func runGroup(t *testing.T, p *world.PKI, g group, seed uint64) run.Outcome {
	var o run.Outcome
	o.Counters = map[string]int{}
	only := os.Getenv("C06_ONLY_SEQ") // replay aid: restrict a case to one arrival sequence
	sigs := map[string]int{}
	for _, s := range g.Seqs {
		if only != "" && seqString(s) != only {
			continue
		}
		ex := runSeq(t, p, g.Sc, s, seed)
		o.Evals++
		o.Counters["executions"]++
		if ex.Skip != "" {
			// the scenario itself could not be set up: never expected, reported loudly
			if o.Violation == "" {
				o.Violation = fmt.Sprintf("%s arrivals=%s: scenario not reached: %s", g.Sc, compact(s), ex.Skip)
				o.Key = "scenario-not-reached/" + g.Sc.V.Name
			}
			continue
		}
		// non-trivial: the arrival order is not the plain in-order, duplicate-free one
		nt := false
		seen := map[int]bool{}
		last := -1
		for _, a := range s {
			if seen[a] || a < last {
				nt = true
			}
			seen[a] = true
			if a > last {
				last = a
			}
		}
		if nt {
			o.Distinct++
		}
		var deliv, dup, oldDrop, oldDeliv int
		for _, st := range ex.Steps {
			o.Counters["arrivals"]++
			switch {
			case st.Verdict == vDuplicate:
				dup++
				o.Counters["arrivals_duplicate_in_window(must_drop)"]++
			case st.Verdict == vTooOld:
				rel := relW(st.Dist, g.Sc.effW())
				if st.Delivered > 0 {
					oldDeliv++
					o.Counters["info_too_old_dist"+rel+"_delivered"]++
				} else {
					oldDrop++
					o.Counters["info_too_old_dist"+rel+"_dropped"]++
				}
			default:
				deliv++
				o.Counters["arrivals_"+st.Verdict.String()+"(must_deliver)"]++
				if st.Verdict == vInWindow && st.Dist == int64(g.Sc.effW())-1 {
					o.Counters["arrivals_in-window_at_dist_W-1(must_deliver)"]++
				}
			}
		}
		sigs[fmt.Sprintf("D%d/R%d/Od%d/Oa%d", deliv, dup, oldDrop, oldDeliv)]++
		if ex.Violation != "" && o.Violation == "" {
			o.Violation, o.Key = ex.Violation, ex.Key
		}
		if o.Sample == nil {
			o.Sample = map[string]any{"case": g.ID, "arrivals": seqString(s), "records": ex.RecKinds, "base_seq": ex.BaseSeq, "deliveries_per_record": ex.Counts}
		}
	}
	o.NonTrivial = o.Distinct > 0
	keys := make([]string, 0, len(sigs))
	for k := range sigs {
		keys = append(keys, k)
	}
	sort.Strings(keys)
	for _, k := range keys {
		o.Counters["outcome:"+k] += sigs[k]
	}
	// class of the case: the set sizes of what happened inside (must-deliver / duplicate / too-old mixes)
	o.Class = fmt.Sprintf("%d-outcome-signatures", len(keys))
	if o.Violation != "" {
		o.Class = "VIOLATION"
	}
	return o
}

func TestC06(t *testing.T) {
	env := run.GetEnv()
	p := world.GetPKI(t)
	psk, cid, v13 := variantByName("12-psk"), variantByName("12-cid"), variantByName("13-direct")

	var groups []group
	params := map[string]any{}
	ws := []int{1, 2, 3, 4}
	every := asc(1, 130)
	some := []int{5, 7, 8, 16, 31, 32, 33, 40, 48, 63, 64, 65, 96, 100, 127, 128, 129}
	if env.Thorough() {
		groups = append(groups, smallGroups(psk, false, false, ws, 5, 7)...)
		groups = append(groups, smallGroups(psk, true, false, ws, 5, 6)...)
		groups = append(groups, smallGroups(psk, false, true, ws, 5, 6)...)
		groups = append(groups, smallGroups(cid, false, false, ws, 5, 6)...)
		groups = append(groups, smallGroups(v13, false, false, ws, 5, 6)...)
		groups = append(groups, smallGroups(v13, true, false, ws, 4, 5)...)
		groups = append(groups, smallGroupsKU(v13, false, false, ws, 5, 6, 2)...)
		groups = append(groups, smallGroupsKU(v13, true, false, ws, 4, 5, 2)...)
		params["small"] = "W in {1,2,3,4}, every arrival sequence of length L over n records: 12-psk c2s n=5 L=7; 12-psk s2c, 12-psk lazy reader, 12-cid, 13-direct n=5 L=6; 13-direct s2c n=4 L=5; 13-direct across a key update (2 records before, rest after) c2s n=5 L=6, s2c n=4 L=5"
		groups = append(groups, sweepGroups(psk, false, asc(1, 260))...)
		groups = append(groups, sweepGroups(psk, true, every)...)
		groups = append(groups, sweepGroups(cid, false, every)...)
		groups = append(groups, sweepGroups(v13, false, every)...)
		params["sweep"] = "every W in 1..260 (12-psk c2s), 1..130 (12-psk s2c, 12-cid, 13-direct): n=W+3, 8-10 sequences visiting every distance 0..W+1 as replay and as late first arrival"
	} else {
		groups = append(groups, smallGroups(psk, false, false, ws, 4, 5)...)
		groups = append(groups, smallGroups(cid, false, false, ws, 4, 5)...)
		groups = append(groups, smallGroups(v13, false, false, ws, 4, 5)...)
		groups = append(groups, smallGroups(psk, false, true, ws, 4, 4)...)
		groups = append(groups, smallGroupsKU(v13, false, false, ws, 4, 5, 2)...)
		params["small"] = "W in {1,2,3,4}, every arrival sequence of length L over n records: 12-psk, 12-cid, 13-direct c2s n=4 L=5 (4^5 each); 12-psk lazy reader n=4 L=4; 13-direct across a key update (2 records before, 2 after) n=4 L=5"
		groups = append(groups, sweepGroups(psk, false, every)...)
		groups = append(groups, sweepGroups(cid, false, some)...)
		groups = append(groups, sweepGroups(v13, false, some)...)
		params["sweep"] = "every W in 1..130 (12-psk), W in " + fmt.Sprint(some) + " (12-cid, 13-direct): n=W+3, 8-10 sequences visiting every distance 0..W+1 as replay and as late first arrival"
	}
	// the receiver exported and resumed before the records arrive: the configured window holds there too
	resumed := func(gs []group) []group {
		out := make([]group, 0, len(gs))
		for _, g := range gs {
			g.Sc.Resumed = true
			g.ID = strings.Replace(g.ID, "/", "/resumed-", 1)
			out = append(out, g)
		}
		return out
	}
	if env.Thorough() {
		groups = append(groups, resumed(sweepGroups(psk, false, every))...)
		groups = append(groups, resumed(sweepGroups(cid, true, some))...)
		groups = append(groups, resumed(smallGroups(psk, false, false, ws, 5, 6))...)
	} else {
		groups = append(groups, resumed(sweepGroups(psk, false, some))...)
		groups = append(groups, resumed(sweepGroups(cid, true, []int{2, 33, 64, 65, 100}))...)
		groups = append(groups, resumed(smallGroups(psk, false, false, ws, 4, 4))...)
	}
	params["resumed"] = "the sweep and small families again on 12-psk (c2s) and 12-cid (s2c) with the receiver exported and resumed (same options) before the records arrive"
	// boundaries of the sequence-number encoding: the sender's counter is preset just below a multiple of
	// 2^16 (DTLS 1.3 carries 16 bits of the number; the receiver reconstructs the rest), 2^8, 2^32; then every
	// arrival sequence of length 3 (quick) / 4 (thorough) over the 3 / 4 records that straddle the boundary
	bounds := []uint64{1<<16 - 2, 2<<16 - 2, 1<<8 - 2, 1<<32 - 2}
	for _, v := range []checks.Variant{v13, psk} {
		for _, at := range bounds {
			if v.V13 && at > 1<<16 {
				// DTLS 1.3 reconstructs a number from 16 wire bits relative to the newest record it opened: a
				// receiver that has seen only single-digit numbers cannot follow a jump beyond the first multiple
				// of 2^16 (that is the protocol, not the library); 65 536 real writes are out of budget
				continue
			}
			n, l := 3, 3
			if env.Thorough() {
				n, l = 4, 4
			}
			for _, w := range []int{0, 4} {
				sc := scen{V: v, W: w, N: n, PresetSeq: at}
				groups = append(groups, group{ID: fmt.Sprintf("boundary/%s/L%d", sc, l), Sc: sc, Seqs: allSeqs(n, l, nil)})
			}
		}
	}
	// the same boundary with a key update behind it: two records beyond 2^16-2 in the old epoch, the key update,
	// two records in the new epoch (small numbers) — and then every arrival order, so that old-epoch records with
	// numbers around 2^16 arrive while the receiver's current epoch has only seen single-digit numbers
	for _, w := range []int{0, 4} {
		sc := scen{V: v13, W: w, N: 4, PresetSeq: 1<<16 - 2, KeyUpdateAfter: 2}
		groups = append(groups, group{ID: fmt.Sprintf("boundary/%s/L4", sc), Sc: sc, Seqs: allSeqs(4, 4, nil)})
	}
	params["boundary"] = "13-direct and 12-psk, sender counter preset to 2^16-2, 2^17-2, 2^8-2, 2^32-2 (primer record delivered), then every arrival sequence with repetitions of length 3 (thorough 4) over the next 3 (4) records, W default and 4; DTLS 1.3 only at 2^16-2 and 2^8-2 (later boundaries are unreachable by one jump of the counter)"
	// smallest window size whose bitmap does not fit the "multiple of 64 / at most half a word" shapes:
	// every arrival sequence of length 3 over 3 records (keeps reproducers of window-size findings minimal)
	groups = append(groups, smallGroups(psk, false, false, []int{63}, 3, 3)...)
	for _, v := range []checks.Variant{psk, cid, v13} {
		groups = append(groups, edgeGroups(v, 0, false)...)
	}
	groups = append(groups, edgeGroups(psk, 64, false)...)
	if env.Thorough() {
		groups = append(groups, edgeGroups(psk, 0, true)...)
		groups = append(groups, edgeGroups(v13, 0, true)...)
	}
	params["edge"] = "default window (and explicit 64 for 12-psk): n=70, head in {prefix-without-older, full prefix, jump}, newest in 63..66, older=newest-d d in 61..66, all 27 tails of length 3 over {older,newest,newest+1}"

	var cases []run.Case
	total := 0
	for _, g := range groups {
		g := g
		total += len(g.Seqs)
		cases = append(cases, run.Case{ID: g.ID, Run: func(t *testing.T) run.Outcome { return runGroup(t, p, g, env.Seed+1) }})
	}
	retx := retxCases(p, env.Thorough(), env.Seed+1)
	cases = append(cases, retx...)
	df := decryptFailCases(p, env.Seed+1)
	cases = append(cases, df...)
	cases = append(cases, shortHeaderCases(p, env.Seed+1)...)
	cases = append(cases, bigJumpCases(p, env.Seed+1)...)
	params["decrypt_fails_once_cases"] = len(df)
	params["retx_replay_cases"] = len(retx)
	params["arrival_sequences"] = total
	params["cases"] = len(cases)
	run.Main(t, "C06", cases, params)
}
