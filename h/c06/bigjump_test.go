package c06

import (
	"fmt"
	"strings"
	"sync"
	"testing"
	"time"

	"github.com/pion/dtls/v3/zzverif/run"
	"github.com/pion/dtls/v3/zzverif/world"
)

// A conforming peer whose record sequence numbers leave large gaps (RFC 6347 only requires them to increase):
// the sender's counter is moved forward between writes so that three records carry the numbers n, about 2^46 and
// about 2^47 + 2^45 (gaps whose sum exceeds half the 48-bit range), or n and n + 2^47 + 5. Every arrival sequence
// with repetitions of length 4 over the records, against the reference window: a record newer than everything
// accepted must be delivered, nothing is delivered twice — "older" and "newer" are plain magnitudes, the numbers
// never wrap.
func bigJumpRun(t *testing.T, p *world.PKI, variant string, jumps []uint64, arrivals []int, seed uint64) run.Outcome {
	var o run.Outcome
	world.Run(t, seed, func(w *world.World) {
		v := variantByName(variant)
		pr, err := v.Setup(w, p)
		if err != nil {
			o.Skip = true
			return
		}
		defer pr.CloseAll()
		n := world.NewNet(w, world.ClientAddr, nil)
		if perr := n.Pump(30*time.Second, pr.BothDone); perr != nil || !pr.BothOK() {
			o.Skip = true
			return
		}
		n.Flush()
		snd, rcv := pr.C, pr.S
		var mu sync.Mutex
		counts := map[string]int{}
		rd := w.Go(rcv.Name+".ReadLoop", func(*world.Op) error {
			b := make([]byte, 512)
			for {
				k, rerr := rcv.Conn.Read(b)
				if rerr != nil {
					return rerr
				}
				mu.Lock()
				counts[string(b[:k])]++
				mu.Unlock()
			}
		})
		w.Settle()
		var dgs []*world.Datagram
		var seqs []uint64
		for k, j := range jumps {
			if j > 0 {
				dtlsPokeSeq(snd, j)
			}
			sn := snd.Snapshot()
			seqs = append(seqs, sn.LocalSeq[sn.LocalEpoch])
			k := k
			wr := w.Go("Write", func(*world.Op) error { _, e := snd.Conn.Write([]byte(fmt.Sprintf("c06-jump-%d", k))); return e })
			w.Settle()
			if !wr.OK() {
				o.Skip = true
				return
			}
			for _, d := range w.InFlight() {
				w.Take(d)
				if d.Src == snd.Addr {
					dgs = append(dgs, d)
				}
			}
		}
		if len(dgs) != len(jumps) {
			o.Skip = true
			return
		}
		ref := newRefWindow(DefaultWindow)
		// records of this epoch exchanged during the handshake (the Finished) precede everything
		want := make([]int, len(dgs))
		open := make([]bool, len(dgs)) // too-old first arrival: delivery left open (never twice)
		for _, a := range arrivals {
			switch ref.classify(seqs[a]) {
			case vNewer, vInWindow:
				want[a]++
				ref.accept(seqs[a])
			case vTooOld:
				if want[a] == 0 {
					open[a] = true
				}
			}
			w.Push(snd.Addr, rcv.Addr, dgs[a].Data)
			w.Settle()
		}
		var viol []string
		mu.Lock()
		for k := range dgs {
			got := counts[fmt.Sprintf("c06-jump-%d", k)]
			switch {
			case got > 1:
				viol = append(viol, fmt.Sprintf("record %d (sequence number %d) was returned by Read %d times", k, seqs[k], got))
			case want[k] == 1 && got != 1:
				viol = append(viol, fmt.Sprintf("record %d (sequence number %d) was newer than everything accepted when it first arrived, yet Read returned it %d times", k, seqs[k], got))
			case want[k] == 0 && !open[k] && got != 0:
				viol = append(viol, fmt.Sprintf("record %d (sequence number %d) never arrived, yet Read returned it", k, seqs[k]))
			}
		}
		mu.Unlock()
		_ = rcv.Conn.SetReadDeadline(time.Unix(1, 0))
		w.Settle()
		_ = rd
		o.NonTrivial = true
		o.Class = "big-jump"
		if len(viol) > 0 {
			o.Violation = fmt.Sprintf("%s, sequence numbers %v, arrivals %v: %s", variant, seqs, arrivals, strings.Join(viol, "; "))
			o.Key = "delivery-after-large-sequence-gap"
		}
		o.Sample = map[string]any{"variant": variant, "numbers": fmt.Sprint(seqs), "arrivals": fmt.Sprint(arrivals)}
	})
	return o
}

func bigJumpCases(p *world.PKI, seed uint64) []run.Case {
	var cases []run.Case
	shapes := map[string][]uint64{
		"n,2^46,2^47+2^45": {0, 1 << 46, 1<<47 + 1<<45},
		"n,n+2^47+5":       {0, 1<<47 + 15},
		"n,2^47-1,2^48-2":  {0, 1<<47 - 1, 1<<48 - 2},
	}
	for _, variant := range []string{"12-psk", "12-cid"} {
		for _, name := range world.SortedKeys(shapes) {
			jumps := shapes[name]
			for _, arr := range allSeqs(len(jumps), 4, nil) {
				variant, name, jumps, arr := variant, name, jumps, arr
				cases = append(cases, run.Case{ID: fmt.Sprintf("big-jump/%s/%s/%s", variant, name, seqString(arr)), Run: func(t *testing.T) run.Outcome { return bigJumpRun(t, p, variant, jumps, arr, seed) }})
			}
		}
	}
	return cases
}
