package c06

import (
	"fmt"
	"strings"
	"sync"
	"testing"
	"time"

	"github.com/pion/dtls/v3/zzverif/checks"
	"github.com/pion/dtls/v3/zzverif/run"
	"github.com/pion/dtls/v3/zzverif/world"
)

// Replay after a handshake that needed retransmissions. The window families above start from a finished,
// quiet handshake; here the anti-replay state is attacked through the handshake itself: one handshake
// datagram is lost, duplicated or delayed (every single fault over the first N datagrams per direction), the
// side whose Handshake call returns first writes one record AT ONCE (it reaches a peer that is still
// retransmitting its final flight, re-installing or re-activating keys, re-processing ChangeCipherSpec …),
// both sides write again after completion, and then an on-path attacker replays EVERY datagram either side
// ever emitted, in emission order, twice.
//
// Oracle: the "at most once" clause only — every payload given to Write is returned by the peer's Read at most
// once over the whole execution; the records written after completion, whose first arrival is in order on a
// quiet network, exactly once. (Whether the early record is delivered at all is not judged: an endpoint may drop
// a record it cannot read yet.)
func retxReplayRun(t *testing.T, p *world.PKI, v checks.Variant, m world.Mask, seed uint64) run.Outcome {
	var o run.Outcome
	var viol []string
	leak := world.RunLeak(t, seed, func(w *world.World) {
		pr, err := v.Setup(w, p)
		if err != nil {
			o.Skip = true
			return
		}
		defer pr.CloseAll()
		n := world.NewNet(w, world.ClientAddr, m)
		var mu sync.Mutex
		got := map[string]map[string]int{pr.C.Name: {}, pr.S.Name: {}}
		readers := map[string]*world.Op{}
		startReader := func(e *world.Endpoint) {
			if readers[e.Name] != nil {
				return
			}
			readers[e.Name] = w.Go(e.Name+".ReadLoop", func(op *world.Op) error {
				buf := make([]byte, 4096)
				for {
					k, rerr := e.Conn.Read(buf)
					if rerr != nil {
						return rerr
					}
					mu.Lock()
					got[e.Name][string(buf[:k])]++
					mu.Unlock()
				}
			})
		}
		write := func(e *world.Endpoint, tag string) bool {
			op := w.Go(e.Name+".Write-"+tag, func(*world.Op) error { _, werr := e.Conn.Write([]byte("c06-retx/" + e.Name + "/" + tag)); return werr })
			_ = n.Pump(3*time.Second, op.Done)
			return op.OK()
		}
		_ = n.Pump(30*time.Second, func() bool { return pr.C.HS.Done() || pr.S.HS.Done() })
		early := ""
		for _, e := range []*world.Endpoint{pr.C, pr.S} {
			if e.HS.OK() && !pr.BothDone() && early == "" {
				early = e.Name
				if !write(e, "early") {
					early += "(write failed)"
				}
			}
		}
		if perr := n.Pump(40*time.Second+world.HoldCap, pr.BothDone); perr != nil || !pr.BothOK() {
			o.Skip = true // completion under a fault is C02's subject
			o.Class = "handshake-incomplete"
			return
		}
		startReader(pr.C)
		startReader(pr.S)
		w.Settle()
		n.ClearFaults()
		n.Flush()
		w.Sleep(1500 * time.Millisecond)
		n.Flush()
		okC, okS := write(pr.C, "after"), write(pr.S, "after")
		n.Flush()
		w.Sleep(50 * time.Millisecond)
		n.Flush()
		// the attacker replays everything, twice
		log := w.Emitted()
		for round := 0; round < 2; round++ {
			for _, d := range log {
				if (d.Src == pr.C.Addr && d.Dst == pr.S.Addr) || (d.Src == pr.S.Addr && d.Dst == pr.C.Addr) {
					w.Push(d.Src, d.Dst, d.Data)
					w.Settle()
				}
			}
			n.Flush()
			w.Sleep(20 * time.Millisecond)
			n.Flush()
		}
		mu.Lock()
		for _, e := range []*world.Endpoint{pr.C, pr.S} {
			for pl, k := range got[e.Name] {
				if k > 1 {
					viol = append(viol, fmt.Sprintf("%s: Read returned the payload %q %d times (written once by the peer; every datagram of the session was replayed twice after completion)", e.Name, pl, k))
				}
			}
		}
		if okC && got[pr.S.Name]["c06-retx/client/after"] != 1 {
			viol = append(viol, fmt.Sprintf("server: the record the client wrote after completion was returned %d times (want exactly once)", got[pr.S.Name]["c06-retx/client/after"]))
		}
		if okS && got[pr.C.Name]["c06-retx/server/after"] != 1 {
			viol = append(viol, fmt.Sprintf("client: the record the server wrote after completion was returned %d times (want exactly once)", got[pr.C.Name]["c06-retx/server/after"]))
		}
		earlyDelivered := 0
		for _, e := range []*world.Endpoint{pr.C, pr.S} {
			for pl, k := range got[e.Name] {
				if strings.HasSuffix(pl, "/early") {
					earlyDelivered += k
				}
			}
		}
		mu.Unlock()
		o.NonTrivial = n.Faulted > 0 || len(m) == 0
		o.Evals = 2 * len(log)
		o.Class = fmt.Sprintf("retx-replay early-writer=%s early-delivered=%d fault-fired=%v", early, earlyDelivered, n.Faulted > 0)
		// stop the readers
		_ = pr.C.Conn.SetReadDeadline(time.Unix(1, 0))
		_ = pr.S.Conn.SetReadDeadline(time.Unix(1, 0))
		w.Settle()
	})
	if leak != "" && len(viol) == 0 {
		viol = append(viol, "goroutines left behind: "+leak)
	}
	if len(viol) > 0 {
		o.Violation = fmt.Sprintf("variant=%s mask=%s: %s", v.Name, m, strings.Join(viol, "; "))
		o.Key = "replayed-after-lossy-handshake"
	}
	o.Sample = map[string]any{"variant": v.Name, "mask": m.String(), "class": o.Class}
	return o
}

func retxCases(p *world.PKI, thorough bool, seed uint64) []run.Case {
	names := []string{"12-cert", "12-resumed", "12-cid", "13-direct"}
	acts := []world.Action{world.ActDrop, world.ActDup, world.ActHold3}
	nd := 8
	if thorough {
		names = append(names, "12-psk", "12-clientauth", "12-cid-resumed", "13-hrr", "13-clientauth")
		acts = checks.AllFaultActions
		nd = 10
	}
	masks := checks.EnumMasks(nd, 1, acts)
	// bursts: a run of 2..4 consecutive datagrams of one direction all lost or all delayed (a final flight
	// together with the acknowledgements and tickets that follow it)
	for _, fromClient := range []bool{true, false} {
		for start := 0; start < nd; start++ {
			for l := 2; l <= 4; l++ {
				for _, a := range []world.Action{world.ActDrop, world.ActHold3} {
					var m world.Mask
					for i := 0; i < l; i++ {
						m = append(m, world.Fault{FromClient: fromClient, Idx: start + i, Act: a})
					}
					masks = append(masks, m)
				}
			}
		}
	}
	var cases []run.Case
	for _, name := range names {
		var v checks.Variant
		for _, x := range append(checks.AllVariants(), checks.VariantsCombined()...) {
			if x.Name == name {
				v = x
			}
		}
		if v.Name == "" {
			continue
		}
		for _, m := range masks {
			v, m := v, m
			cases = append(cases, run.Case{ID: fmt.Sprintf("retx-replay/%s/%s", v.Name, m), Run: func(t *testing.T) run.Outcome { return retxReplayRun(t, p, v, m, seed) }})
		}
	}
	return cases
}
