package c06

import (
	"context"
	"fmt"
	"strings"
	"sync"
	"testing"
	"time"

	dtls "github.com/pion/dtls/v3"
	dtlsstate "github.com/pion/dtls/v3/internal/state"
	"github.com/pion/dtls/v3/zzverif/refimpl"
	"github.com/pion/dtls/v3/zzverif/run"
	"github.com/pion/dtls/v3/zzverif/world"
)

// A DTLS 1.3 peer that is not this library: it writes the unified header with an 8-bit sequence number and no
// length field (RFC 9147 section 4 allows both). Its records are sealed by the reference record layer with the
// association's real application traffic secret and continue the sender's own numbering, in steps of 97 up to
// beyond 2^8 and 2^9 — so the receiver has to reconstruct every number from 8 wire bits relative to what it has
// accepted so far. Each payload must be returned by Read exactly once; a replay of every datagram afterwards
// adds nothing. Variant "ku": the (library) sender then starts a key update whose acknowledgement is withheld,
// and three more old-epoch 8-bit records arrive while the receiver has already moved its receive epoch on: they
// are records of a generation it still retains and must be delivered as well.
func shortHeaderRun(t *testing.T, p *world.PKI, s2c bool, ku bool, seed uint64) run.Outcome {
	var o run.Outcome
	world.Run(t, seed, func(w *world.World) {
		v := variantByName("13-direct")
		pr, err := v.Setup(w, p)
		if err != nil {
			o.Skip = true
			return
		}
		defer pr.CloseAll()
		n := world.NewNet(w, world.ClientAddr, nil)
		if perr := n.Pump(30*time.Second, pr.BothDone); perr != nil || !pr.BothOK() {
			o.Skip = true
			return
		}
		for i := 0; i < 4; i++ {
			n.Flush()
			w.Sleep(5 * time.Millisecond)
		}
		n.Flush()
		snd, rcv := pr.C, pr.S
		if s2c {
			snd, rcv = pr.S, pr.C
		}
		sec, ok := pr.GetSecrets()
		if !ok || !sec.V13 {
			o.Skip = true
			return
		}
		ts := sec.APClient
		if s2c {
			ts = sec.APServer
		}
		keys := refimpl.TrafficKeys13(sec.Suite, ts)
		snap := snd.Snapshot()
		base := uint64(0)
		if int(snap.LocalEpoch) < len(snap.LocalSeq) {
			base = snap.LocalSeq[snap.LocalEpoch]
		}
		var mu sync.Mutex
		counts := map[string]int{}
		rd := w.Go(rcv.Name+".ReadLoop", func(*world.Op) error {
			b := make([]byte, 512)
			for {
				k, rerr := rcv.Conn.Read(b)
				if rerr != nil {
					return rerr
				}
				mu.Lock()
				counts[string(b[:k])]++
				mu.Unlock()
			}
		})
		w.Settle()
		seal := func(seq uint64, tag string) []byte {
			rec, serr := refimpl.Seal13(sec.Suite, keys, refimpl.Record13{Type: world.CTAppData, Epoch: 3, Seq: seq, Seq16: false, WithLength: false, Payload: []byte(tag)})
			if serr != nil {
				return nil
			}
			return rec
		}
		var sent []string
		var dgs [][]byte
		for k := 0; k <= 8; k++ {
			tag := fmt.Sprintf("c06-short-header-%d", k)
			d := seal(base+uint64(k)*97, tag)
			if d == nil {
				o.Skip = true
				return
			}
			sent, dgs = append(sent, tag), append(dgs, d)
			w.Push(snd.Addr, rcv.Addr, d)
			w.Settle()
		}
		next := base + 8*97 + 1
		if ku {
			// the library sender must not reuse the numbers the foreign writer used on its behalf
			dtlsPokeSeq(snd, next+10)
			up := w.Go(snd.Name+".UpdateKeys", func(*world.Op) error {
				return snd.Conn.UpdateKeys(context.Background(), dtls.KeyUpdateOptions{})
			})
			w.Settle()
			// deliver the KeyUpdate to the receiver, withhold its acknowledgement
			for _, d := range w.InFlight() {
				if d.Src == snd.Addr {
					w.Deliver(d)
					w.Settle()
				}
			}
			var held []*world.Datagram
			for _, d := range w.InFlight() {
				w.Take(d)
				held = append(held, d)
			}
			for k := 0; k < 3; k++ {
				tag := fmt.Sprintf("c06-short-header-during-update-%d", k)
				d := seal(next+20+uint64(k), tag)
				sent, dgs = append(sent, tag), append(dgs, d)
				w.Push(snd.Addr, rcv.Addr, d)
				w.Settle()
			}
			for _, d := range held {
				w.Push(d.Src, d.Dst, d.Data)
				w.Settle()
			}
			_ = n.Pump(5*time.Second, up.Done)
			n.Flush()
		}
		// replay everything
		for _, d := range dgs {
			w.Push(snd.Addr, rcv.Addr, d)
			w.Settle()
		}
		n.Flush()
		var viol []string
		mu.Lock()
		for _, tag := range sent {
			if counts[tag] != 1 {
				viol = append(viol, fmt.Sprintf("%q was returned by Read %d times (want exactly once)", tag, counts[tag]))
			}
		}
		mu.Unlock()
		_ = rcv.Conn.SetReadDeadline(time.Unix(1, 0))
		w.Settle()
		_ = rd
		o.NonTrivial = true
		o.Evals = 2 * len(dgs)
		o.Class = fmt.Sprintf("short-header s2c=%v ku=%v base=%d", s2c, ku, base)
		if len(viol) > 0 {
			o.Violation = fmt.Sprintf("DTLS 1.3, records with 8-bit sequence numbers and no length field from a conforming peer (numbers %d, +97, ... +776%s), s2c=%v: %s", base, map[bool]string{true: ", three more of the old epoch while a key update is unacknowledged", false: ""}[ku], s2c, strings.Join(viol, "; "))
			o.Key = "short-unified-header-record-not-delivered-once"
		}
		o.Sample = map[string]any{"s2c": s2c, "key_update": ku, "records": len(dgs), "class": o.Class}
	})
	return o
}

func shortHeaderCases(p *world.PKI, seed uint64) []run.Case {
	var cases []run.Case
	for _, s2c := range []bool{false, true} {
		for _, ku := range []bool{false, true} {
			s2c, ku := s2c, ku
			cases = append(cases, run.Case{ID: fmt.Sprintf("short-header/13-direct/s2c=%v/ku=%v", s2c, ku), Run: func(t *testing.T) run.Outcome { return shortHeaderRun(t, p, s2c, ku, seed) }})
		}
	}
	return cases
}

func dtlsPokeSeq(e *world.Endpoint, seq uint64) {
	dtls.VerifPoke(e.Conn, func(in dtls.VerifInternals) {
		cs := dtlsstate.CommonState(in.State)
		cs.LocalSequenceNumber[cs.LocalEpoch()] = seq
	})
}
