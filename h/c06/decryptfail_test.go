package c06

import (
	"fmt"
	"hash"
	"strings"
	"sync"
	"testing"
	"time"

	dtls "github.com/pion/dtls/v3"
	ics "github.com/pion/dtls/v3/internal/ciphersuite"
	"github.com/pion/dtls/v3/pkg/crypto/clientcertificate"
	"github.com/pion/dtls/v3/pkg/protocol/recordlayer"
	"github.com/pion/dtls/v3/zzverif/run"
	"github.com/pion/dtls/v3/zzverif/world"
)

// An application-supplied cipher suite (WithCustomCipherSuites) whose Decrypt fails once — a transient failure
// of a crypto offload engine — on a genuine record. The record that met the failure was not delivered, so it
// was not "accepted": when a network duplicate of it arrives afterwards, inside the window, it is a first
// acceptable arrival and has to be delivered (exactly once); later copies are replays.
//
// Enumerated: every arrival sequence of length 4 over 2 records x the position of the one failing Decrypt.

type flakySuite struct {
	in   ics.CipherSuite
	ctl  *flakyCtl
	name string
}

type flakyCtl struct {
	mu       sync.Mutex
	failNext bool
	failed   int
}

func (c *flakySuite) String() string                          { return "VERIF_FLAKY_" + c.in.String() }
func (c *flakySuite) ID() dtls.CipherSuiteID                  { return 0xFFB0 }
func (c *flakySuite) CertificateType() clientcertificate.Type { return c.in.CertificateType() }
func (c *flakySuite) HashFunc() func() hash.Hash              { return c.in.HashFunc() }
func (c *flakySuite) AuthenticationType() dtls.CipherSuiteAuthenticationType {
	return c.in.AuthenticationType()
}
func (c *flakySuite) KeyExchangeAlgorithm() dtls.CipherSuiteKeyExchangeAlgorithm {
	return c.in.KeyExchangeAlgorithm()
}
func (c *flakySuite) ECC() bool { return c.in.ECC() }
func (c *flakySuite) Init(ms, cr, sr []byte, isClient bool) error {
	return c.in.Init(ms, cr, sr, isClient)
}
func (c *flakySuite) IsInitialized() bool { return c.in.IsInitialized() }
func (c *flakySuite) Encrypt(pkt *recordlayer.RecordLayer, raw []byte) ([]byte, error) {
	return c.in.Encrypt(pkt, raw)
}
func (c *flakySuite) Decrypt(h recordlayer.Header, in []byte) ([]byte, error) {
	c.ctl.mu.Lock()
	f := c.ctl.failNext
	if f {
		c.ctl.failNext = false
		c.ctl.failed++
	}
	c.ctl.mu.Unlock()
	if f {
		return nil, fmt.Errorf("injected: decrypt engine busy")
	}
	return c.in.Decrypt(h, in)
}

func decryptFailRun(t *testing.T, p *world.PKI, arrivals []int, failAt int, seed uint64) run.Outcome {
	var o run.Outcome
	world.Run(t, seed, func(w *world.World) {
		ctl := &flakyCtl{}
		key := []byte{4, 3, 2, 1}
		suite := dtls.TLS_PSK_WITH_AES_128_GCM_SHA256
		c := world.Cfg{Cred: "psk", PSK: key, Suites: []dtls.CipherSuiteID{suite}}
		s := world.Cfg{Cred: "psk", PSK: key, Suites: []dtls.CipherSuiteID{suite}}
		// both ends run an application-supplied suite (private-use identifier); the server's (the receiver's)
		// implementation is the one whose Decrypt fails once
		s.Extra = []dtls.Option{dtls.WithCustomCipherSuites(func() []dtls.CipherSuite {
			return []dtls.CipherSuite{&flakySuite{in: ics.ForID(ics.ID(suite), nil), ctl: ctl}}
		})}
		c.Extra = []dtls.Option{dtls.WithCustomCipherSuites(func() []dtls.CipherSuite {
			return []dtls.CipherSuite{&flakySuite{in: ics.ForID(ics.ID(suite), nil), ctl: &flakyCtl{}}}
		})}
		pr, err := w.NewPair(p, c, s)
		if err != nil {
			o.Skip = true
			return
		}
		defer pr.CloseAll()
		n := world.NewNet(w, world.ClientAddr, nil)
		if perr := n.Pump(30*time.Second, pr.BothDone); perr != nil || !pr.BothOK() {
			o.Skip = true
			o.Class = "handshake-failed"
			return
		}
		n.Flush()
		var mu sync.Mutex
		counts := map[string]int{}
		rd := w.Go("server.ReadLoop", func(*world.Op) error {
			b := make([]byte, 512)
			for {
				k, rerr := pr.S.Conn.Read(b)
				if rerr != nil {
					return rerr
				}
				mu.Lock()
				counts[string(b[:k])]++
				mu.Unlock()
			}
		})
		w.Settle()
		nrec := 0
		for _, a := range arrivals {
			if a+1 > nrec {
				nrec = a + 1
			}
		}
		var dgs []*world.Datagram
		for k := 0; k < nrec; k++ {
			wr := w.Go("client.Write", func(*world.Op) error { _, e := pr.C.Conn.Write([]byte(fmt.Sprintf("c06-flaky-%d", k))); return e })
			w.Settle()
			if !wr.OK() {
				o.Skip = true
				return
			}
			for _, d := range w.InFlight() {
				w.Take(d)
				if d.Src == pr.C.Addr {
					dgs = append(dgs, d)
				}
			}
		}
		if len(dgs) != nrec {
			o.Skip = true
			return
		}
		okArrival := make([]bool, nrec)
		for i, a := range arrivals {
			if i == failAt {
				ctl.mu.Lock()
				ctl.failNext = true
				ctl.mu.Unlock()
			}
			before := ctl.failed
			w.Push(pr.C.Addr, pr.S.Addr, dgs[a].Data)
			w.Settle()
			ctl.mu.Lock()
			hit := ctl.failed > before
			ctl.failNext = false
			ctl.mu.Unlock()
			if !hit {
				okArrival[a] = true
			}
		}
		w.Settle()
		var viol []string
		mu.Lock()
		for k := 0; k < nrec; k++ {
			got := counts[fmt.Sprintf("c06-flaky-%d", k)]
			want := 0
			if okArrival[k] {
				want = 1
			}
			if got != want {
				viol = append(viol, fmt.Sprintf("record %d arrived %s, the Decrypt of arrival #%d failed once: its payload was returned by Read %d times (want %d)", k, describeArrivals(arrivals, k), failAt, got, want))
			}
		}
		mu.Unlock()
		_ = pr.S.Conn.SetReadDeadline(time.Unix(1, 0))
		w.Settle()
		_ = rd
		o.NonTrivial = ctl.failed > 0
		o.Class = fmt.Sprintf("decrypt-fail injected=%d", ctl.failed)
		if len(viol) > 0 {
			o.Violation = fmt.Sprintf("arrivals=%v fail-at=%d: %s", arrivals, failAt, strings.Join(viol, "; "))
			o.Key = "payload-count-after-transient-decrypt-failure"
		}
		o.Sample = map[string]any{"arrivals": fmt.Sprint(arrivals), "fail_at": failAt, "class": o.Class}
	})
	return o
}

func describeArrivals(arr []int, k int) string {
	var at []string
	for i, a := range arr {
		if a == k {
			at = append(at, fmt.Sprintf("#%d", i))
		}
	}
	return "at " + strings.Join(at, ",")
}

func decryptFailCases(p *world.PKI, seed uint64) []run.Case {
	var cases []run.Case
	for _, arr := range allSeqs(2, 4, nil) {
		for failAt := 0; failAt < len(arr); failAt++ {
			arr, failAt := arr, failAt
			cases = append(cases, run.Case{ID: fmt.Sprintf("decrypt-fails-once/%s/at%d", seqString(arr), failAt), Run: func(t *testing.T) run.Outcome { return decryptFailRun(t, p, arr, failAt, seed) }})
		}
	}
	return cases
}
