// Package c06 checks property C06 (anti-replay): no application payload is delivered by Read more often
// than the peer wrote it, whatever the network duplicates / delays / reorders, and a record that arrives
// fewer sequence numbers behind the newest accepted record of its epoch than the configured replay window
// is delivered exactly once.
package c06

// refWindow is the independent reference anti-replay window: RFC 6347 §4.1.2.6 (the IPsec AH/ESP sliding
// window), parameterised by its size W. It is written against the RFC text, not against pion/transport:
// a plain []bool bitmap whose index i stands for sequence number (right - i).
//
//	"The 'right' edge of the window represents the highest validated sequence number value received on
//	 this session. Records that contain sequence numbers lower than the 'left' edge of the window are
//	 rejected. Packets falling within the window are checked against a list of received packets within the
//	 window. [...] If the received record falls within the window and is new, or if the packet is to the
//	 right of the window, then the receiver proceeds to MAC verification [and, if that succeeds, updates
//	 the window]."
type refWindow struct {
	w     int
	has   bool   // at least one record accepted in this epoch
	right uint64 // highest accepted sequence number
	bits  []bool // bits[i]: sequence number right-i was accepted (0 <= i < w)
}

type verdict int

const (
	vNewer     verdict = iota // to the right of the window (or first record of the epoch): MUST be delivered
	vInWindow                 // within the window and new (distance < W): MUST be delivered
	vDuplicate                // within the window and already accepted: MUST NOT be delivered
	vTooOld                   // distance >= W: the property text leaves drop/deliver open (never twice)
)

func (v verdict) String() string {
	return [...]string{"newer", "in-window", "duplicate", "too-old"}[v]
}

func newRefWindow(w int) *refWindow { return &refWindow{w: w, bits: make([]bool, w)} }

// seed marks seq as already accepted (records of the same epoch exchanged during the handshake).
func (r *refWindow) seed(seq uint64) { r.accept(seq) }

// distance returns how many sequence numbers seq lies behind the newest accepted record (0 = it IS the
// newest); ok=false if seq is newer than everything accepted so far.
func (r *refWindow) distance(seq uint64) (d uint64, ok bool) {
	if !r.has || seq > r.right {
		return 0, false
	}
	return r.right - seq, true
}

func (r *refWindow) classify(seq uint64) verdict {
	d, behind := r.distance(seq)
	switch {
	case !behind:
		return vNewer
	case d >= uint64(r.w):
		return vTooOld
	case r.bits[d]:
		return vDuplicate
	}
	return vInWindow
}

// accept records seq as validated (only meaningful for vNewer / vInWindow verdicts).
func (r *refWindow) accept(seq uint64) {
	d, behind := r.distance(seq)
	if behind {
		if d < uint64(r.w) {
			r.bits[d] = true
		}
		return
	}
	shift := uint64(r.w)
	if r.has && seq-r.right < shift {
		shift = seq - r.right
	}
	nb := make([]bool, r.w)
	for i := 0; i+int(shift) < r.w; i++ {
		nb[i+int(shift)] = r.bits[i]
	}
	nb[0] = true
	r.bits, r.right, r.has = nb, seq, true
}
