//go:build e2

package e2

import (
	"bytes"
	"context"
	"fmt"
	"sort"
	"strings"
	"testing"
	"time"

	dtls "github.com/pion/dtls/v3"
	"github.com/pion/dtls/v3/zzverif/run"
	"github.com/pion/dtls/v3/zzverif/world"
)

// C20 under E2: UpdateKeys racing Writes on an established DTLS 1.3 connection, every schedule with
// <= bound preemptions at the library's lock and atomic operations (both endpoints are scheduled; the
// network delivers FIFO whenever nobody is at a scheduling point).
//
// ops: k = UpdateKeys, K = UpdateKeys requesting the peer's update, a/b = Write from two goroutines,
// lower-case letters run on the chosen side, 'q' = a Write on the peer.

func c20Scenario(t *testing.T, p *world.PKI, ops string, clientSide bool, seed uint64) func(x *Exec) (string, string) {
	return func(x *Exec) (viol, outcome string) {
		bad := func(f string, a ...any) {
			if viol == "" {
				viol = fmt.Sprintf(f, a...)
			}
		}
		world.Run(t, seed, func(w *world.World) {
			v := mkVariant(true, 0)
			pr, err := v.Setup(w, p)
			if err != nil {
				bad("HARNESS: setup: %v", err)
				return
			}
			n := world.NewNet(w, world.ClientAddr, nil)
			if err := n.Pump(20*time.Second, pr.BothDone); err != nil || !pr.BothOK() {
				bad("HARNESS: handshake failed")
				return
			}
			_ = n.Pump(3*time.Second, func() bool { return false }) // NewSessionTicket + ACKs settle
			n.Flush()
			e, peer := pr.S, pr.C
			if clientSide {
				e, peer = pr.C, pr.S
			}
			dec := pr.NewDecoder()
			dec.Poll()
			// readers collect what arrives (started natively: they block on the decrypted channel)
			type rdr struct {
				got [][]byte
				op  *world.Op
			}
			startReader := func(c *world.Endpoint, r *rdr) {
				r.op = w.Go(c.Name+".Reader", func(*world.Op) error {
					for {
						b := make([]byte, 256)
						k, err := c.Conn.Read(b)
						if err != nil {
							return err
						}
						r.got = append(r.got, b[:k])
					}
				})
			}
			var re, rp rdr
			startReader(e, &re)
			startReader(peer, &rp)
			w.Settle()
			w.NoSkew = true
			x.Idle = func() bool {
				d := w.Head()
				if d == nil {
					return false
				}
				w.Deliver(d)
				return true
			}
			x.Start()
			var opsRun []*world.Op
			var written, writtenPeer [][]byte
			for i, k := range ops {
				switch k {
				case 'k', 'K':
					req := k == 'K'
					opsRun = append(opsRun, w.Go("UpdateKeys", func(*world.Op) error {
						ctx, cancel := context.WithTimeout(context.Background(), 30*time.Second)
						defer cancel()
						return e.Conn.UpdateKeys(ctx, dtls.KeyUpdateOptions{RequestPeerUpdate: req})
					}))
				case 'a', 'b', 'c':
					payload := []byte(fmt.Sprintf("e2-%c-%d", k, i))
					written = append(written, payload)
					opsRun = append(opsRun, w.Go("Write-"+string(k), func(*world.Op) error { _, err := e.Conn.Write(payload); return err }))
				case 'q':
					payload := []byte(fmt.Sprintf("e2-peer-%d", i))
					writtenPeer = append(writtenPeer, payload)
					opsRun = append(opsRun, w.Go("peer.Write", func(*world.Op) error { _, err := peer.Conn.Write(payload); return err }))
				}
			}
			x.Drive()
			x.Stop()
			w.NoSkew = false
			if x.Deadlock != "" || x.Diverged != "" {
				return
			}
			w.Settle()
			// reliable network, no loss: everything completes without needing a retransmission timer
			_ = n.Pump(5*time.Second, func() bool {
				for _, op := range opsRun {
					if !op.Done() {
						return false
					}
				}
				return w.Head() == nil
			})
			n.Flush()
			for _, op := range opsRun {
				if d, err := op.Result(); !d {
					bad("%s did not return", op.Name)
				} else if err != nil {
					bad("%s returned %v on a loss-free network", op.Name, err)
				}
			}
			recs := dec.Poll()
			// epochs never decrease per sender; every record opens under a reference generation
			lastEpoch := map[world.Addr]uint16{}
			lastSeq := map[string]uint64{}
			for _, r := range recs {
				if !r.OK {
					bad("%s emitted a record that opens under no reference generation (datagram #%d): keys are not the RFC 8446 traffic-update successor, or the nonce is wrong", r.D.Src, r.D.ID)
					continue
				}
				if r.Epoch < lastEpoch[r.D.Src] {
					bad("%s: sending epoch decreased from %d to %d (datagram #%d)", r.D.Src, lastEpoch[r.D.Src], r.Epoch, r.D.ID)
				}
				lastEpoch[r.D.Src] = r.Epoch
				k := fmt.Sprintf("%s/%d", r.D.Src, r.Epoch)
				if s, ok := lastSeq[k]; ok && r.Seq <= s {
					bad("%s: (epoch %d, sequence %d) emitted after sequence %d", r.D.Src, r.Epoch, r.Seq, s)
				}
				lastSeq[k] = r.Seq
			}
			// exactly-once delivery (nothing was dropped)
			check := func(name string, want, got [][]byte) {
				for _, wv := range want {
					c := 0
					for _, g := range got {
						if bytes.Equal(g, wv) {
							c++
						}
					}
					if c != 1 {
						bad("%s: payload %q delivered %d times (written once, nothing lost)", name, wv, c)
					}
				}
				for _, g := range got {
					ok := false
					for _, wv := range want {
						if bytes.Equal(g, wv) {
							ok = true
						}
					}
					if !ok {
						bad("%s: Read returned %q which nobody wrote", name, g)
					}
				}
			}
			// stop the readers
			_ = e.Conn.SetReadDeadline(time.Unix(1, 0))
			_ = peer.Conn.SetReadDeadline(time.Unix(1, 0))
			w.Settle()
			check("peer of "+e.Name, written, rp.got)
			check(e.Name, writtenPeer, re.got)
			var eps []string
			for a, ep := range lastEpoch {
				eps = append(eps, fmt.Sprintf("%s=e%d", a, ep))
			}
			sort.Strings(eps)
			outcome = strings.Join(eps, ",")
			pr.CloseAll()
		})
		return viol, outcome
	}
}

func TestC20E2(t *testing.T) {
	env := run.GetEnv()
	p := world.GetPKI(t)
	bound := 2
	maxExec := 6000
	if env.Thorough() {
		bound, maxExec = 3, 60000
	}
	var cases []run.Case
	for _, ops := range []string{"ka", "kab", "Ka", "kq", "Kaq", "kk", "akb"} {
		for _, clientSide := range []bool{true, false} {
			ops, clientSide := ops, clientSide
			side := "server"
			if clientSide {
				side = "client"
			}
			bound := bound
			if !env.Thorough() && len(ops) >= 2 {
				bound = 1 // both endpoints are scheduled: 2 preemptions do not finish within the quick budget
				if ops == "Kaq" {
					bound = 0 // >12000 schedules with one preemption: the quick tier enumerates its non-preemptive schedules only
				}
			}
			cases = append(cases, run.Case{ID: fmt.Sprintf("e2/13/%s/%s/b%d", ops, side, bound), Run: func(t *testing.T) run.Outcome {
				res := Explore(bound, maxExec, c20Scenario(t, p, ops, clientSide, env.Seed+1))
				o := run.Outcome{Incomplete: res.Capped, NonTrivial: res.Executions > 1, Evals: res.Executions, Distinct: len(res.Outcomes),
					Class:    fmt.Sprintf("schedules=%s outcomes=%d capped=%v", bucket(res.Executions), len(res.Outcomes), res.Capped),
					Counters: map[string]int{"e2_executions": res.Executions, "e2_max_sched_points": res.MaxSteps, "e2_capped": b2i(res.Capped)},
					Sample:   map[string]any{"ops": ops, "side": side, "preemption_bound": bound, "schedules": res.Executions, "capped_at": maxExec, "capped": res.Capped, "outcomes": res.Outcomes}}
				if res.Violation != "" {
					o.Violation = fmt.Sprintf("E2 ops=%s side=%s bound=%d: %s; schedule: %s; choices=%v", ops, side, bound, res.Violation, clip(res.Schedule, 1500), res.Choices)
				}
				return o
			}})
		}
	}
	run.Main(t, "C20", cases, map[string]any{"layer": "E2", "preemption_bound": bound, "max_executions_per_scenario": maxExec})
}

func b2i(b bool) int {
	if b {
		return 1
	}
	return 0
}

func clip(s string, n int) string {
	if len(s) > n {
		return s[:n] + "…"
	}
	return s
}
