//go:build e2

package e2

import (
	"fmt"
	"strings"
	"testing"
	"time"

	dtls "github.com/pion/dtls/v3"
	"github.com/pion/dtls/v3/zzverif/checks"
	"github.com/pion/dtls/v3/zzverif/run"
	"github.com/pion/dtls/v3/zzverif/world"
)

// C09 under E2: concurrent Writes (and a Write racing an alert / Close) on an established connection,
// every schedule with <= bound preemptions at the library's lock and atomic operations.

type scen struct {
	name string
	v13  bool
	cid  int
	ops  string // a,b = Write from two goroutines; x = Close; r = peer's last handshake datagram arrives again;
	// m = a fresh genuine record of the peer arrives from a NEW address (connection IDs + return routability
	// check: the read loop answers with a path_challenge, a record numbered and emitted outside Write)
}

func mkVariant(v13 bool, cid int) checks.Variant {
	c, s := world.Cfg{CIDLen: cid}, world.Cfg{CIDLen: cid}
	c.Cred, s.Cred, c.PSK, s.PSK = "psk", "psk", []byte{1, 2, 3}, []byte{1, 2, 3}
	c.Suites, s.Suites = []dtls.CipherSuiteID{dtls.TLS_PSK_WITH_AES_128_GCM_SHA256}, []dtls.CipherSuiteID{dtls.TLS_PSK_WITH_AES_128_GCM_SHA256}
	if v13 {
		c, s = world.Cfg{CIDLen: cid, MinV: 13, MaxV: 13}, world.Cfg{CIDLen: cid, MinV: 13, MaxV: 13, SkipHelloVerify: true}
	}
	return checks.Variant{Name: "e2", C: c, S: s, V13: v13}
}

func monitor(recs []world.Decoded, src world.Addr) string {
	last := map[uint16]uint64{}
	seen := map[uint16]bool{}
	for _, r := range recs {
		if r.D.Src != src || (r.Unified && !r.OK) {
			continue
		}
		if seen[r.Epoch] && r.Seq <= last[r.Epoch] {
			return fmt.Sprintf("%s emitted (epoch %d, sequence %d) after sequence %d of the same epoch (datagram #%d)", src, r.Epoch, r.Seq, last[r.Epoch], r.D.ID)
		}
		seen[r.Epoch], last[r.Epoch] = true, r.Seq
	}
	return ""
}

func c09Scenario(t *testing.T, p *world.PKI, sc scen, clientSends bool, seed uint64) func(x *Exec) (string, string) {
	return func(x *Exec) (viol, outcome string) {
		world.Run(t, seed, func(w *world.World) {
			v := mkVariant(sc.v13, sc.cid)
			pr, err := v.Setup(w, p)
			if err != nil {
				viol = "HARNESS: setup: " + err.Error()
				return
			}
			n := world.NewNet(w, world.ClientAddr, nil)
			if err := n.Pump(20*time.Second, pr.BothDone); err != nil || !pr.BothOK() {
				viol = "HARNESS: handshake failed"
				return
			}
			n.Flush()
			w.CIDLenHint = pr.CIDLenFor
			dec := pr.NewDecoder()
			dec.Poll()
			snd, rcv := pr.S, pr.C
			if clientSends {
				snd, rcv = pr.C, pr.S
			}
			var peerLast []byte
			for _, d := range w.Emitted() {
				if d.Src == rcv.Addr && d.ID >= pr.FirstID {
					peerLast = d.Data
				}
			}
			var migrate []byte
			if strings.Contains(sc.ops, "m") {
				pw := w.Go("PeerWrite", func(*world.Op) error { _, e := rcv.Conn.Write([]byte("from-a-new-address")); return e })
				w.Settle()
				for _, d := range w.InFlight() {
					if d.Src == rcv.Addr {
						migrate = d.Data
						w.Take(d)
					}
				}
				if !pw.OK() || migrate == nil {
					viol = "HARNESS: no peer record to re-source"
					return
				}
				// somebody reads on the sender, so that its read loop is never held up by the application queue
				w.Go("Reader", func(*world.Op) error {
					b := make([]byte, 256)
					for {
						if _, e := snd.Conn.Read(b); e != nil {
							return e
						}
					}
				})
			}
			w.Settle()
			w.NoSkew = true
			x.Start()
			var ops []*world.Op
			for _, k := range sc.ops {
				k := k
				switch k {
				case 'a', 'b', 'c':
					payload := []byte("e2-payload-" + string(k))
					ops = append(ops, w.Go("Write-"+string(k), func(*world.Op) error { _, e := snd.Conn.Write(payload); return e }))
				case 'x':
					ops = append(ops, w.Go("Close", func(*world.Op) error { return snd.Conn.Close() }))
				case 'r':
					w.Push(rcv.Addr, snd.Addr, peerLast)
				case 'm':
					w.Push(world.Addr("10.0.0.77:7777"), snd.Addr, migrate)
				}
			}
			x.Drive()
			x.Stop()
			w.NoSkew = false
			w.Settle()
			if x.Deadlock != "" || x.Diverged != "" {
				return
			}
			for _, op := range ops {
				if !op.Done() {
					viol = fmt.Sprintf("operation %s did not return after the scheduled phase", op.Name)
				}
			}
			// emission order is the in-flight order; now deliver everything
			n.Flush()
			recs := dec.Poll()
			if m := monitor(recs, snd.Addr); m != "" && viol == "" {
				viol = m
			}
			if m := monitor(recs, rcv.Addr); m != "" && viol == "" {
				viol = m
			}
			var seqs []string
			for _, r := range recs {
				if r.D.Src == snd.Addr {
					tag := ""
					if r.OK && r.Type == world.CTAppData && len(r.Payload) > 0 {
						tag = string(r.Payload[len(r.Payload)-1:])
					} else if r.OK {
						tag = fmt.Sprintf("t%d", r.Type)
					}
					seqs = append(seqs, fmt.Sprintf("%d.%d%s", r.Epoch, r.Seq, tag))
				}
			}
			outcome = strings.Join(seqs, ",")
			pr.CloseAll()
		})
		return viol, outcome
	}
}

func TestC09E2(t *testing.T) {
	env := run.GetEnv()
	p := world.GetPKI(t)
	bound := 2
	if env.Thorough() {
		bound = 3
	}
	scens := []scen{
		{"12/ab", false, 0, "ab"}, {"12/abc", false, 0, "abc"}, {"12/ax", false, 0, "ax"}, {"12/ar", false, 0, "ar"}, {"12/abr", false, 0, "abr"},
		{"12cid/ab", false, 4, "ab"}, {"12cid/ax", false, 4, "ax"},
		{"12cid/am", false, 4, "am"}, {"12cid/ma", false, 4, "ma"}, {"13cid/am", true, 4, "am"},
		{"13/ab", true, 0, "ab"}, {"13/ax", true, 0, "ax"}, {"13/abc", true, 0, "abc"},
	}
	var cases []run.Case
	for _, sc := range scens {
		for _, clientSends := range []bool{true, false} {
			sc, clientSends := sc, clientSends
			side := "server"
			if clientSends {
				side = "client"
			}
			bound := bound
			maxExec := 20000
			if len(sc.ops) >= 3 && !env.Thorough() {
				bound = 1 // three concurrent operations: 2 preemptions do not finish within the quick budget
			}
			if env.Thorough() {
				maxExec = 400000
			}
			cases = append(cases, run.Case{ID: fmt.Sprintf("e2/%s/%s/b%d", sc.name, side, bound), Run: func(t *testing.T) run.Outcome {
				res := Explore(bound, maxExec, c09Scenario(t, p, sc, clientSends, env.Seed+1))
				o := run.Outcome{Incomplete: res.Capped, NonTrivial: res.Executions > 1, Evals: res.Executions, Distinct: len(res.Outcomes),
					Class:    fmt.Sprintf("schedules=%s outcomes=%d capped=%v", bucket(res.Executions), len(res.Outcomes), res.Capped),
					Counters: map[string]int{"e2_executions": res.Executions, "e2_max_sched_points": res.MaxSteps, "e2_distinct_emission_orders": len(res.Outcomes)},
					Sample:   map[string]any{"scenario": sc.name, "side": side, "preemption_bound": bound, "schedules": res.Executions, "max_scheduling_points": res.MaxSteps, "distinct_emission_orders": len(res.Outcomes)}}
				if res.Violation != "" {
					o.Violation = fmt.Sprintf("E2 scenario=%s sender=%s bound=%d: %s; schedule: %s; choices=%v", sc.name, side, bound, res.Violation, res.Schedule, res.Choices)
					if strings.HasPrefix(res.Violation, "HARNESS") {
						o.Key = "harness"
					}
				}
				return o
			}})
		}
	}
	run.Main(t, "C09", cases, map[string]any{"layer": "E2", "preemption_bound": bound, "scenarios": len(scens)})
}

func bucket(n int) string {
	switch {
	case n < 10:
		return "<10"
	case n < 100:
		return "<100"
	case n < 1000:
		return "<1000"
	case n < 10000:
		return "<10000"
	}
	return ">=10000"
}
