//go:build e2

// Package e2 is the goroutine-interleaving layer (DESIGN.md §2.2): a CHESS-style stateless explorer over
// the real library rebuilt with scheduler-aware sync / sync/atomic shims (build overlay produced by
// /verif/cmd/e2rewrite). Every acquire-type or atomic operation of the library is a scheduling point; the
// explorer enumerates all schedules with at most `bound` preemptions by depth-first search over choice
// prefixes, re-executing the scenario from a fresh world for every schedule.
package e2

import (
	"fmt"
	"sort"
	"strings"
	"testing/synctest"

	"github.com/pion/dtls/v3/internal/verifshim/vsched"
	"github.com/pion/dtls/v3/zzverif/run"
	"github.com/pion/dtls/v3/zzverif/world"
)

type point struct {
	n              int  // number of enabled goroutines
	runningEnabled bool // the goroutine that ran last was among them (first in canonical order)
}

// Exec is one execution under a schedule prefix.
type Exec struct {
	prefix   []int
	choices  []int
	points   []point
	Deadlock string
	Diverged string
	Steps    int
	last     int
	MaxSteps int
	// Idle is the environment's default step, taken only when no goroutine is parked.
	Idle func() bool
}

// Start activates the scheduler (call at a quiescent point with no shim lock held).
func (x *Exec) Start() {
	world.SchedPoint = func(kind string, obj any) { vsched.Point(kind, obj, func() bool { return true }) }
	vsched.Start()
}

// Drive runs the scheduled phase to completion: until no goroutine is parked at a scheduling point.
func (x *Exec) Drive() {
	if x.MaxSteps == 0 {
		x.MaxSteps = 5000
	}
	for {
		synctest.Wait()
		parked := vsched.Parked()
		if len(parked) == 0 {
			// nobody is at a scheduling point: let the environment take its default step (e.g. deliver the
			// oldest in-flight datagram); the scheduled phase ends when it has nothing to do either
			if x.Idle != nil && x.Idle() {
				continue
			}
			return
		}
		sort.Slice(parked, func(i, j int) bool { return parked[i].G < parked[j].G })
		var en []*vsched.Req
		for _, r := range parked {
			if r.G == x.last && r.Enabled() {
				en = append(en, r)
			}
		}
		runningEnabled := len(en) > 0
		for _, r := range parked {
			if r.G != x.last && r.Enabled() {
				en = append(en, r)
			}
		}
		if len(en) == 0 {
			var w []string
			for _, r := range parked {
				w = append(w, fmt.Sprintf("g%d:%s(%s)", r.G, r.Kind, r.Obj))
			}
			x.Deadlock = "no parked goroutine is enabled: " + strings.Join(w, " ")
			return
		}
		idx := 0
		if x.Steps < len(x.prefix) {
			idx = x.prefix[x.Steps]
			if idx >= len(en) {
				x.Diverged = fmt.Sprintf("step %d: prefix wants choice %d of %d enabled", x.Steps, idx, len(en))
				return
			}
		}
		x.points = append(x.points, point{n: len(en), runningEnabled: runningEnabled})
		x.choices = append(x.choices, idx)
		x.last = en[idx].G
		x.Steps++
		vsched.Grant(en[idx])
		if x.Steps > x.MaxSteps {
			x.Diverged = "step cap reached"
			return
		}
	}
}

// Stop deactivates the scheduler (parked goroutines are released and run natively).
func (x *Exec) Stop() {
	vsched.Stop()
	world.SchedPoint = nil
}

// Schedule renders the grant trace of the last scheduled phase.
func (x *Exec) Schedule() string { return strings.Join(vsched.Trace, " ") }

func (x *Exec) preemptionsBefore(i int) int {
	c := 0
	for j := 0; j < i; j++ {
		if x.points[j].runningEnabled && x.choices[j] != 0 {
			c++
		}
	}
	return c
}

// Result of exploring one scenario.
type Result struct {
	Executions int
	Violation  string
	Schedule   string
	Choices    []int
	Outcomes   map[string]int
	MaxSteps   int
	Capped     bool
}

// Explore enumerates every schedule of scenario with at most bound preemptions. scenario runs one
// execution under x (it must call x.Start, start its operations, x.Drive, x.Stop) and returns a
// violation text ("" = property held) and an outcome label.
func Explore(bound, maxExec int, scenario func(x *Exec) (string, string)) Result {
	res := Result{Outcomes: map[string]int{}}
	var rec func(prefix []int)
	rec = func(prefix []int) {
		if res.Violation != "" || (maxExec > 0 && res.Executions >= maxExec) {
			if maxExec > 0 && res.Executions >= maxExec {
				res.Capped = true
			}
			return
		}
		x := &Exec{prefix: prefix}
		viol, outcome := scenario(x)
		res.Executions++
		if res.Executions%25 == 0 {
			run.Heartbeat()
		}
		res.Outcomes[outcome]++
		if x.Steps > res.MaxSteps {
			res.MaxSteps = x.Steps
		}
		if x.Diverged != "" {
			res.Violation = "HARNESS: schedule replay diverged: " + x.Diverged
			res.Choices = x.choices
			return
		}
		if viol == "" && x.Deadlock != "" {
			viol = "deadlock: " + x.Deadlock
		}
		if viol != "" {
			res.Violation = viol
			res.Schedule = x.Schedule()
			res.Choices = append([]int(nil), x.choices...)
			return
		}
		for i := len(prefix); i < len(x.points); i++ {
			p := x.points[i]
			base := x.preemptionsBefore(i)
			for alt := 1; alt < p.n; alt++ {
				cost := base
				if p.runningEnabled {
					cost++ // switching away from a goroutine that could continue is a preemption
				}
				if cost > bound {
					continue
				}
				next := append(append([]int(nil), x.choices[:i]...), alt)
				rec(next)
				if res.Violation != "" {
					return
				}
			}
		}
	}
	rec(nil)
	return res
}
