//go:build e2

package e2

import (
	"errors"
	"fmt"
	"io"
	"strings"
	"testing"
	"time"

	dtls "github.com/pion/dtls/v3"
	"github.com/pion/dtls/v3/zzverif/run"
	"github.com/pion/dtls/v3/zzverif/world"
)

// C16 under E2: Close racing Close / Read / Write / the peer's close_notify on an established connection,
// every schedule with <= bound preemptions at the library's lock and atomic operations.
//
// ops: x = Close (one caller each), r = a Read that is pending when the race starts, w = Write,
// p = the peer's close_notify datagram arrives, a = SetDeadline + ConnectionState accessors.

func closedClass(err error) bool {
	if err == nil {
		return false
	}
	if errors.Is(err, io.EOF) || errors.Is(err, dtls.ErrConnClosed) {
		return true
	}
	s := err.Error()
	return strings.Contains(s, "closed") || strings.Contains(s, "closing") || strings.Contains(s, "EOF")
}

func c16Scenario(t *testing.T, p *world.PKI, v13 bool, ops string, clientSide bool, seed uint64) func(x *Exec) (string, string) {
	return c16ScenarioAt(t, p, v13, ops, clientSide, -1, seed)
}

// c16ScenarioAt: pos >= 0 starts the race in the middle of the handshake, after pos network deliveries (the
// endpoint's Handshake call is pending); op 'd' hands the next datagram in flight for the endpoint to it when
// the race starts, so that Close meets the handshake state machine and the read loop at work.
func c16ScenarioAt(t *testing.T, p *world.PKI, v13 bool, ops string, clientSide bool, pos int, seed uint64) func(x *Exec) (string, string) {
	return func(x *Exec) (viol, outcome string) {
		bad := func(f string, a ...any) {
			if viol == "" {
				viol = fmt.Sprintf(f, a...)
			}
		}
		leak := world.RunLeak(t, seed, func(w *world.World) {
			v := mkVariant(v13, 0)
			pr, err := v.Setup(w, p)
			if err != nil {
				bad("HARNESS: setup: %v", err)
				return
			}
			n := world.NewNet(w, world.ClientAddr, nil)
			e, peer := pr.S, pr.C
			if clientSide {
				e, peer = pr.C, pr.S
			}
			mid := pos >= 0
			if mid {
				for i := 0; i < pos && !pr.BothDone(); i++ {
					if !n.Step() {
						break
					}
				}
				if e.HS.Done() {
					outcome = "position-beyond-handshake"
					pr.CloseAll()
					return
				}
			} else {
				if err := n.Pump(20*time.Second, pr.BothDone); err != nil || !pr.BothOK() {
					bad("HARNESS: handshake failed")
					return
				}
				n.Flush()
			}
			w.CIDLenHint = pr.CIDLenFor
			dec := pr.NewDecoder()
			dec.Poll()
			// pending Read (started natively: it blocks on the decrypted channel, not on a mutex)
			var rd *world.Op
			if strings.Contains(ops, "r") {
				rd = w.Go("Read", func(op *world.Op) error {
					b := make([]byte, 256)
					_, err := e.Conn.Read(b)
					return err
				})
				w.Settle()
			}
			// the peer's close_notify, captured but not yet delivered
			var peerCN []byte
			if strings.Contains(ops, "p") {
				pc := w.Go("peer.Close", func(*world.Op) error { return peer.Conn.Close() })
				w.Settle()
				if d := w.Head(); d != nil && pc.Done() {
					w.Take(d)
					peerCN = d.Data
				}
			}
			var next []byte
			if strings.Contains(ops, "d") {
				for _, d := range w.InFlight() {
					if d.Dst == e.Addr {
						w.Take(d)
						next = d.Data
						break
					}
				}
			}
			from := w.EmittedCount()
			w.NoSkew = true
			x.Start()
			var opsRun []*world.Op
			for i, k := range ops {
				switch k {
				case 'x':
					opsRun = append(opsRun, w.Go(fmt.Sprintf("Close#%d", i), func(*world.Op) error { return e.Conn.Close() }))
				case 'w':
					opsRun = append(opsRun, w.Go("Write", func(*world.Op) error { _, err := e.Conn.Write([]byte("e2-data")); return err }))
				case 'd':
					if next != nil {
						w.Push(peer.Addr, e.Addr, next)
					}
				case 'p':
					if peerCN != nil {
						w.Push(peer.Addr, e.Addr, peerCN)
					}
				case 'a':
					opsRun = append(opsRun, w.Go("Accessors", func(*world.Op) error {
						_ = e.Conn.SetDeadline(time.Now().Add(time.Hour))
						_, _ = e.Conn.ConnectionState()
						_ = e.Conn.RemoteAddr()
						_, _ = e.Conn.SelectedSRTPProtectionProfile()
						return nil
					}))
				}
			}
			x.Drive()
			x.Stop()
			w.NoSkew = false
			if x.Deadlock != "" || x.Diverged != "" {
				return
			}
			w.Settle()
			var res []string
			for _, op := range opsRun {
				d, err := op.Result()
				if !d {
					bad("%s did not return", op.Name)
					continue
				}
				switch {
				case strings.HasPrefix(op.Name, "Close") && err != nil:
					bad("%s returned %v", op.Name, err)
				case op.Name == "Write" && err != nil && !closedClass(err):
					bad("Write racing Close returned %v (neither success nor a closed error)", err)
				}
				res = append(res, fmt.Sprintf("%s=%v", op.Name, err == nil))
			}
			if mid {
				if d, err := e.HS.Result(); !d {
					bad("the pending Handshake was not released by Close")
				} else if err != nil && !closedClass(err) && !strings.Contains(err.Error(), "context canceled") {
					bad("the pending Handshake returned %v after Close (want a closed error)", err)
				}
			}
			if rd != nil {
				if d, err := rd.Result(); !d {
					bad("pending Read not unblocked by Close")
				} else if !closedClass(err) {
					bad("pending Read returned %v (not a closed/EOF error)", err)
				}
			}
			n.Flush()
			recs := dec.Poll()
			alerts := 0
			for _, r := range recs {
				if r.D.Src == e.Addr && r.D.ID >= from && r.OK && r.Type == world.CTAlert {
					alerts++
				}
			}
			closes := strings.Count(ops, "x")
			if closes > 0 || peerCN != nil {
				if alerts > 1 {
					bad("%d close_notify records emitted by one endpoint (at most once)", alerts)
				}
				if alerts == 0 && peerCN == nil && !mid {
					// (when the peer's close_notify is already arriving the session is no longer open: the reply may
					// lose the race against the application's Close shutting the socket)
					bad("no close_notify emitted although the application closed an established, open session")
				}
			}
			outcome = fmt.Sprintf("alerts=%d %s", alerts, strings.Join(res, ","))
			pr.CloseAll()
		})
		if leak != "" && viol == "" {
			viol = "goroutines left behind: " + leak
		}
		return viol, outcome
	}
}

func TestC16E2(t *testing.T) {
	env := run.GetEnv()
	p := world.GetPKI(t)
	bound := 2
	if env.Thorough() {
		bound = 3
	}
	var cases []run.Case
	for _, v13 := range []bool{false, true} {
		for _, ops := range []string{"xx", "rxx", "xw", "rxw", "xp", "rxp", "xa", "xxa"} {
			for _, clientSide := range []bool{true, false} {
				v13, ops, clientSide := v13, ops, clientSide
				ver, side := "12", "server"
				if v13 {
					ver = "13"
				}
				if clientSide {
					side = "client"
				}
				cases = append(cases, run.Case{ID: fmt.Sprintf("e2/%s/%s/%s/b%d", ver, ops, side, bound), Run: func(t *testing.T) run.Outcome {
					res := Explore(bound, 20000, c16Scenario(t, p, v13, ops, clientSide, env.Seed+1))
					o := run.Outcome{Incomplete: res.Capped, NonTrivial: res.Executions > 1, Evals: res.Executions, Distinct: len(res.Outcomes),
						Class:    fmt.Sprintf("schedules=%s outcomes=%d capped=%v", bucket(res.Executions), len(res.Outcomes), res.Capped),
						Counters: map[string]int{"e2_executions": res.Executions, "e2_max_sched_points": res.MaxSteps},
						Sample:   map[string]any{"version": ver, "ops": ops, "side": side, "preemption_bound": bound, "schedules": res.Executions, "outcomes": res.Outcomes}}
					if res.Violation != "" {
						o.Violation = fmt.Sprintf("E2 version=%s ops=%s side=%s bound=%d: %s; schedule: %s; choices=%v", ver, ops, side, bound, res.Violation, res.Schedule, res.Choices)
					}
					return o
				}})
			}
		}
	}
	// Close in the middle of the handshake, racing the next handshake datagram
	for _, v13 := range []bool{false, true} {
		for _, pos := range []int{1, 3, 4, 5} {
			for _, ops := range []string{"dx", "dxx"} {
				for _, clientSide := range []bool{true, false} {
					v13, pos, ops, clientSide := v13, pos, ops, clientSide
					ver, side := "12", "server"
					if v13 {
						ver = "13"
					}
					if clientSide {
						side = "client"
					}
					b := bound - 1
					cases = append(cases, run.Case{ID: fmt.Sprintf("e2/%s/mid%d-%s/%s/b%d", ver, pos, ops, side, b), Run: func(t *testing.T) run.Outcome {
						res := Explore(b, 6000, c16ScenarioAt(t, p, v13, ops, clientSide, pos, env.Seed+1))
						o := run.Outcome{Incomplete: res.Capped, NonTrivial: res.Executions > 1, Evals: res.Executions, Distinct: len(res.Outcomes),
							Class:    fmt.Sprintf("mid schedules=%s outcomes=%d capped=%v", bucket(res.Executions), len(res.Outcomes), res.Capped),
							Counters: map[string]int{"e2_executions": res.Executions, "e2_max_sched_points": res.MaxSteps},
							Sample:   map[string]any{"version": ver, "ops": ops, "side": side, "position": pos, "preemption_bound": b, "schedules": res.Executions, "outcomes": res.Outcomes}}
						if res.Violation != "" {
							o.Violation = fmt.Sprintf("E2 version=%s position=%d ops=%s side=%s bound=%d: %s; schedule: %s; choices=%v", ver, pos, ops, side, b, res.Violation, res.Schedule, res.Choices)
						}
						return o
					}})
				}
			}
		}
	}
	run.Main(t, "C16", cases, map[string]any{"layer": "E2", "preemption_bound": bound})
}
