//go:build verif

package c20

import (
	"bytes"
	"fmt"
	"sort"
	"strings"

	"github.com/pion/dtls/v3/zzverif/run"
)

// kuMsg is one KeyUpdate message (identified by its handshake message_seq) a side emitted.
type kuMsg struct {
	mseq    uint16
	req     bool
	gen     int         // generation its records were protected with
	numbers [][2]uint64 // record numbers (epoch, seq) of every (re)transmission
	ackStep int         // first step at which an ACK listing one of those numbers was delivered to the sender; -1 = never
}

type verdict struct {
	violations []problem
	counters   map[string]int
	class      string
	nontrivial bool
	recs       []rec
}

func (v *verdict) bad(key, format string, a ...any) {
	v.violations = append(v.violations, problem{key: key, text: fmt.Sprintf(format, a...)})
}

// judge evaluates the C20 oracle on a finished execution.
func (x *exec) judge() *verdict {
	v := &verdict{counters: map[string]int{}}
	v.violations = append(v.violations, x.problems...)
	mg := maxGenFor(x.sc.Ops)
	recs := x.decodeFrom(x.baseLog)
	v.recs = recs
	byDg := map[int][]rec{}
	for _, r := range recs {
		byDg[r.DgID] = append(byDg[r.DgID], r)
	}
	views := [2]endpointView{x.view(cli, mg), x.view(srv, mg)}
	if x.w.Verbose {
		for _, r := range recs {
			x.w.Logf("decoded %v", r)
		}
		for _, o := range x.ops {
			x.w.Logf("op %d %v start@%d done@%d", o.idx, o.op, o.startStep, o.doneStep)
		}
		for _, s := range []side{cli, srv} {
			for _, it := range x.readsOf(s) {
				x.w.Logf("%s.Read @%d %q", s, it.step, it.data)
			}
			x.w.Logf("%s view %+v reader=%v", s, views[s], x.readers[s])
		}
		x.w.Logf("deliveries %v", x.deliveries)
	}

	// (4) every record of the data phase opens under exactly the reference generation named by its epoch
	// bits; (3) per side the generation never decreases in emission order.
	last := [2]int{-1, -1}
	maxGen := [2]int{}
	for _, r := range recs {
		if r.Gen < 0 {
			v.bad("record-opens-under-no-reference-generation",
				"datagram #%d record %d emitted by %s (epoch bits %d) opens under none of the reference generations 0..%d derived with \"traffic upd\" from the first application traffic secret: its keys are not the RFC 8446 successor of the previous generation (%s)",
				r.DgID, r.Idx, r.Src, r.Hdr.EpochLow, mg, r.Err)
			continue
		}
		if !r.BitsOK {
			v.bad("epoch-bits-disagree-with-keys", "record %v carries epoch bits %d but opens under generation %d (epoch %d)", r, r.Hdr.EpochLow, r.Gen, r.Epoch)
		}
		if r.Gen < last[r.Src] {
			v.bad("sending-epoch-decreased", "%s emitted %v (epoch %d) after a record of epoch %d", r.Src, r, r.Epoch, firstAppEp+last[r.Src])
		}
		if r.Gen > last[r.Src] {
			last[r.Src] = r.Gen
		}
		if r.Gen > maxGen[r.Src] {
			maxGen[r.Src] = r.Gen
		}
		v.counters[fmt.Sprintf("records_gen%d", r.Gen)]++
		if r.Type == ctAlert {
			v.counters["alerts"]++
		}
	}

	// KeyUpdate messages per side and the step at which their acknowledgement reached the sender.
	var kus [2][]*kuMsg
	for _, r := range recs {
		for _, m := range r.HS {
			if m.Type != hsKeyUpdate {
				continue
			}
			var k *kuMsg
			for _, c := range kus[r.Src] {
				if c.mseq == m.Seq {
					k = c
				}
			}
			if k == nil {
				k = &kuMsg{mseq: m.Seq, req: len(m.Body) == 1 && m.Body[0] == 1, gen: r.Gen, ackStep: -1}
				kus[r.Src] = append(kus[r.Src], k)
			} else {
				v.counters["keyupdate_retransmissions"]++
			}
			k.numbers = append(k.numbers, [2]uint64{uint64(r.Epoch), r.Seq})
		}
	}
	for _, dl := range x.deliveries {
		for _, r := range byDg[dl.id] {
			if r.Type != ctACK {
				continue
			}
			for _, k := range kus[dl.to] {
				if k.ackStep >= 0 {
					continue
				}
				for _, a := range r.Acks {
					for _, n := range k.numbers {
						if a == n {
							k.ackStep = dl.step
						}
					}
				}
			}
		}
	}

	// (1) UpdateKeys returned nil  =>  an ACK covering its KeyUpdate record had been delivered before.
	// The call<->message association is not observable on the wire (an answering KeyUpdate looks like
	// an unrequested one), so the oracle asks for an injective, flag-respecting assignment of the
	// successfully returned calls of a side to that side's acknowledged KeyUpdate messages with
	// ackStep <= doneStep. Sorted greedy matching decides that exactly.
	for _, s := range []side{cli, srv} {
		for _, flag := range []bool{false, true} {
			var calls []*opRec
			for _, o := range x.ops {
				if o.kind.isU() && o.kind.side() == s && o.kind.req() == flag && o.op.OK() {
					calls = append(calls, o)
				}
			}
			var acked []int
			for _, k := range kus[s] {
				if k.req == flag && k.ackStep >= 0 {
					acked = append(acked, k.ackStep)
				}
			}
			sort.Slice(calls, func(i, j int) bool { return calls[i].doneStep < calls[j].doneStep })
			sort.Ints(acked)
			for i, o := range calls {
				if i >= len(acked) || acked[i] > o.doneStep {
					have := "no acknowledged KeyUpdate is left for it"
					if i < len(acked) {
						have = fmt.Sprintf("the earliest unassigned acknowledgement reached %s only at step %d", s, acked[i])
					}
					v.bad("updatekeys-returned-before-ack",
						"op %d %s returned nil at step %d (started at step %d) but %s; KeyUpdate messages of %s: %s",
						o.idx, o.kind, o.doneStep, o.startStep, have, s, kuString(kus[s]))
					break
				}
			}
		}
	}
	for _, s := range []side{cli, srv} {
		for _, k := range kus[s] {
			if k.ackStep >= 0 {
				v.counters["keyupdates_acked_"+s.String()]++
			}
		}
	}

	// Every call must come back (the schedule has finitely many deviations followed by reliable delivery).
	// Not when a transport refused a send: an endpoint may close on that, its calls then fail and its peer's key
	// update is never acknowledged. What the calls that DO report success mean is judged as always below.
	for _, o := range x.ops {
		done, err := o.op.Result()
		if x.sc.FailNth > 0 || o.cancelled {
			continue
		}
		switch {
		case !done:
			key := "write-never-returned"
			if o.kind.isU() {
				key = "updatekeys-never-returned"
			}
			v.bad(key, "op %d %s had not returned at the end of the horizon", o.idx, o.kind)
		case err != nil:
			key := "write-failed"
			if o.kind.isU() {
				key = "updatekeys-failed"
			}
			v.bad(key, "op %d %s returned %v", o.idx, o.kind, err)
		}
	}

	// (2) exactly-once, unmodified, delivered when the datagram arrived while the generation was retained.
	delivered, lost := 0, 0
	written := [2]map[string]*opRec{{}, {}}
	for _, o := range x.ops {
		if !o.kind.isU() {
			written[o.kind.side()][string(o.payload)] = o
		}
	}
	for _, s := range []side{cli, srv} {
		got := map[string]int{}
		for _, it := range x.readsOf(s) {
			got[string(it.data)]++
		}
		// everything Read returned must be a payload the peer wrote (or a forged record, judged below)
		for _, it := range x.readsOf(s) {
			if _, ok := written[s.peer()][string(it.data)]; ok {
				continue
			}
			if x.forgedFor(s, it.data) != nil {
				continue
			}
			v.bad("unknown-payload-delivered", "%s.Read returned %q which the peer never wrote", s, it.data)
		}
		for _, o := range x.ops {
			if o.kind.isU() || o.kind.side() != s.peer() || !o.op.OK() {
				continue
			}
			p := string(o.payload)
			var carrier []rec
			for _, r := range recs {
				if r.Src == s.peer() && r.Type == ctAppData && bytes.Equal(r.Body, o.payload) {
					carrier = append(carrier, r)
				}
			}
			switch n := got[p]; {
			case n > 1:
				v.bad("payload-delivered-twice", "payload %q (op %d) was delivered %d times to %s", p, o.idx, n, s)
			case n == 1:
				delivered++
			default:
				if len(carrier) == 0 {
					v.bad("write-ok-without-record", "op %d Write(%q) returned nil but no record carrying it was emitted", o.idx, p)
					continue
				}
				// Not delivering is legitimate only if the datagram never arrived, or if at every arrival the
				// receiver had already retired the record's generation (it had it installed earlier, not any more).
				arrived, excused := false, true
				for _, r := range carrier {
					for _, dl := range x.deliveries {
						if dl.id != r.DgID || dl.to != s {
							continue
						}
						arrived = true
						if now, ever := x.retainedAt(s, dl.step, r.Gen); now || !ever {
							excused = false
						}
					}
				}
				switch {
				case !arrived:
					lost++
				case excused:
					lost++
					v.counters["payloads_late_for_retired_generation"]++
				default:
					authEnd, _ := x.authorisedGen(s, recs)
					v.bad("payload-lost", "payload %q (op %d, %v) arrived at %s (KeyUpdates received by then or later: %d, read epochs installed at the end: %v) while its generation was not retired, but Read never returned it", p, o.idx, carrier[0], s, authEnd, epochList(views[s].retained))
				}
			}
		}
	}
	v.counters["payloads_delivered"] = delivered
	v.counters["payloads_lost_legitimately"] = lost

	// (5) forged records: accepted => the generation was authorised when it was delivered to Read and is
	// still retained; never more than once.
	for _, f := range x.forgedRecs {
		_, authSteps := x.authorisedGen(f.to, recs)
		var hits []readItem
		for _, it := range x.readsOf(f.to) {
			if bytes.Equal(it.data, f.payload) {
				hits = append(hits, it)
			}
		}
		label := fmt.Sprintf("forged_%s_", injNames[f.kind])
		switch {
		case len(hits) == 0:
			v.counters[label+"not_delivered"]++
		case len(hits) > 1:
			v.bad("forged-record-delivered-twice", "forged record (generation %d seq %d, %d copies) was delivered %d times to %s", f.gen, f.seq, f.copies, len(hits), f.to)
		default:
			switch {
			case f.gen >= len(authSteps):
				v.bad("unauthorised-epoch-record-delivered", "record under generation %d was delivered to %s.Read although %s never authorised that generation (authorised: %d)", f.gen, f.to, f.to, len(authSteps)-1)
			case hits[0].step < authSteps[f.gen]:
				v.bad("unauthorised-epoch-record-delivered", "record under generation %d was delivered to %s.Read at step %d, before the KeyUpdate authorising it arrived (step %d)", f.gen, f.to, hits[0].step, authSteps[f.gen])
			case !retainedNow(x, f.to, hits[0].step, f.gen):
				v.bad("retired-epoch-record-delivered", "record under generation %d was delivered to %s.Read at step %d although %s did not retain epoch %d then", f.gen, f.to, hits[0].step, f.to, firstAppEp+f.gen)
			case f.gen > f.authAtInj:
				v.counters[label+"buffered_then_delivered_after_authorisation"]++
			default:
				v.counters[label+"delivered_while_retained"]++
			}
		}
	}

	// the mask positions are enumerated up to a static bound on the fault-free emissions: confirm it
	if len(x.sc.Mask) == 0 && x.sc.Inj == nil {
		var em [2]int
		for _, d := range x.w.Emitted() {
			if d.ID >= x.baseLog {
				em[sideOf(d.Src)]++
			}
		}
		if nc, ns := staticCounts(x.sc.Ops); em[cli] > nc || em[srv] > ns {
			v.counters["static_emission_bound_exceeded"]++
		}
	}

	// non-vacuity
	for _, s := range []side{cli, srv} {
		v.counters[fmt.Sprintf("executions_%s_reached_gen%d", s, maxGen[s])] = 1
	}
	completed := 0
	for _, o := range x.ops {
		if o.kind.isU() && o.op.OK() {
			completed++
		}
	}
	v.counters["updatekeys_ok"] = completed
	v.counters["executions"] = 1
	retr := v.counters["keyupdate_retransmissions"]
	v.class = fmt.Sprintf("gen%d/%d ku%d retr%d deliv%d lost%d", maxGen[cli], maxGen[srv], len(kus[cli])+len(kus[srv]), retr, delivered, lost)
	if len(x.forgedRecs) > 0 {
		var fs []string
		for _, k := range sortedKeys(v.counters) {
			if strings.HasPrefix(k, "forged_") {
				fs = append(fs, strings.TrimPrefix(k, "forged_"))
			}
		}
		v.class += " " + strings.Join(fs, ",")
	}
	v.nontrivial = x.n.Faulted == len(x.sc.Mask) && v.counters["keyupdates_acked_c"]+v.counters["keyupdates_acked_s"] > 0
	return v
}

func (x *exec) forgedFor(to side, data []byte) *forged {
	for _, f := range x.forgedRecs {
		if f.to == to && bytes.Equal(f.payload, data) {
			return f
		}
	}
	return nil
}

func kuString(ks []*kuMsg) string {
	var s []string
	for _, k := range ks {
		s = append(s, fmt.Sprintf("{mseq %d req %v gen %d records %v ackStep %d}", k.mseq, k.req, k.gen, k.numbers, k.ackStep))
	}
	return "[" + strings.Join(s, " ") + "]"
}

// outcome folds a verdict into the worker's result record.
func (x *exec) outcome(v *verdict, leak string) run.Outcome {
	var o run.Outcome
	o.Class = v.class
	o.NonTrivial = v.nontrivial
	o.Counters = v.counters
	if x.tr != nil {
		o.States, o.Transitions = x.tr.States, x.tr.Trans
	}
	if leak != "" {
		v.bad("goroutine-leak", "goroutines left blocked in the bubble: %s", clip(leak, 300))
	}
	var opsR []string
	for _, op := range x.ops {
		opsR = append(opsR, fmt.Sprintf("%s@%d->%d", op.op, op.startStep, op.doneStep))
	}
	o.Sample = map[string]any{"case": x.sc.id(), "outcome": v.class, "ops": opsR, "events": len(x.events)}
	if len(v.violations) > 0 {
		// the first violation names the case; the key is that of the first one (most specific cause first)
		sort.SliceStable(v.violations, func(i, j int) bool { return keyRank(v.violations[i].key) < keyRank(v.violations[j].key) })
		first := v.violations[0]
		o.Key = first.key
		var texts []string
		for _, p := range v.violations {
			texts = append(texts, "["+p.key+"] "+p.text)
		}
		var rs []string
		for _, r := range v.recs {
			rs = append(rs, r.String())
		}
		o.Violation = fmt.Sprintf("case %s: %s; ops=%v; records=%s; events=%s", x.sc.id(), strings.Join(texts, " ;; "), opsR,
			clip(strings.Join(rs, " "), 1500), clip(strings.Join(x.events, " | "), 1500))
		o.Class = "VIOLATION:" + first.key
	}
	return o
}

// keyRank orders cause keys: root causes before their consequences.
func keyRank(k string) int {
	order := []string{
		"harness-seal", "setup-failed",
		"record-opens-under-no-reference-generation", "epoch-bits-disagree-with-keys",
		"unauthorised-epoch-record-delivered", "retired-epoch-record-delivered", "unauthorised-epoch-record-answered", "unauthorised-epoch-record-changed-state",
		"forged-record-delivered-twice",
		"updatekeys-returned-before-ack", "sending-epoch-decreased",
		"payload-delivered-twice", "unknown-payload-delivered", "payload-lost", "write-ok-without-record",
		"updatekeys-failed", "write-failed", "updatekeys-never-returned", "write-never-returned",
		"goroutine-leak",
	}
	for i, o := range order {
		if o == k {
			return i
		}
	}
	return len(order)
}

func clip(s string, n int) string {
	if len(s) > n {
		return s[:n] + "…"
	}
	return s
}

func epochList(m map[uint16]bool) []int {
	var out []int
	for e := range m {
		out = append(out, int(e))
	}
	sort.Ints(out)
	return out
}

func retainedNow(x *exec, sd side, step, g int) bool {
	now, _ := x.retainedAt(sd, step, g)
	return now
}
