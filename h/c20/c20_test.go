//go:build verif

package c20

import (
	"fmt"
	"strings"
	"testing"

	dtls "github.com/pion/dtls/v3"
	"github.com/pion/dtls/v3/zzverif/checks"
	"github.com/pion/dtls/v3/zzverif/run"
	"github.com/pion/dtls/v3/zzverif/world"
)

// C20 — DTLS 1.3 key updates keep data exactly-once and epochs monotonic.
//
// Scenario. A real DTLS 1.3 client/server pair ("13-direct"; also with 4-byte connection IDs and, in the
// thorough tier, with TLS_CHACHA20_POLY1305_SHA256 and TLS_AES_256_GCM_SHA384) is established over a
// reliable network and run to full quiescence (NewSessionTicket and its ACK included). One reader
// goroutine per side then collects everything Read returns. The data phase executes an operation
// sequence over {Uc, UcR, Us, UsR, Wc, Ws} (U = UpdateKeys without / with RequestPeerUpdate, W = Write
// of a distinct payload); every operation is started without waiting for the previous one to return,
// `gap` network transitions after the previous start. The network then applies a fault mask (indices
// count the datagrams each side emits from the start of the data phase) and is reliable afterwards; the
// run ends when a whole 61 s round of fake time (> the 60 s retransmission cap) passes without emission.
//
// Enumerated families (boundsFor / enumerate):
//
//	A  every sequence of length <= 3 (quick) / <= 4 (thorough) x gap in {0,1,2} / {0,1,2,3} x every mask
//	   with <= 1 deviation (drop, dup, swap, hold1; thorough adds hold3, late duplicate)
//	B  exactly 2 deviations: sequences of length <= 2 / <= 3 (the longest length with drop and dup only)
//	C  fault-free schedules for the longer sequences (thorough: length 5)
//	D  A-like runs of length <= 2 / <= 3 followed by a late byte copy of every data-phase datagram
//	E  forged records: sequences of length <= 2 / <= 3 (+ one write in each direction) executed
//	   sequentially; at every quiescent point, towards either side, a record sealed BY THE REFERENCE under
//	   generation authorised+1, authorised+2, or under every older generation (each twice)
//	G  4 and 5 updates in a row (epoch-bit wrap-around) with forged records and late copies
//	F  families A, D, E (reduced) with connection IDs and the other suites
//
// Oracle (oracle.go), evaluated on the emission log decrypted with reference keys only (decode.go: the
// first application traffic secrets are read once after the handshake, every later generation is
// HKDF-Expand-Label(previous, "traffic upd", "", Hash.length) computed by refimpl):
//
//	1  UpdateKeys returned nil => an ACK record listing a record number of one of the caller's KeyUpdate
//	   messages (same request flag) had been delivered to it at or before the step of the return
//	   (injective assignment of calls to acknowledged messages); every call returns nil eventually
//	2  every payload is delivered at most once, nothing else is delivered, and a payload whose datagram
//	   arrived is delivered unless the receiver had retired its generation before every arrival
//	3  per side the generation of emitted records never decreases in emission order
//	4  every data-phase record opens under the reference generation named by its epoch bits
//	5  a forged record is delivered only if its generation had been authorised (the authorising KeyUpdate
//	   had arrived) by the step of the delivery and was still installed then, and at most once; a record
//	   under an unauthorised generation provokes no emission and no epoch change while unauthorised
//
// A case is non-trivial when every fault of its mask fired and at least one KeyUpdate was acknowledged.

func runCase(t *testing.T, p *world.PKI, sc scen, seed uint64) run.Outcome {
	var o run.Outcome
	var x *exec
	var v *verdict
	setupErr := ""
	leak := world.RunLeak(t, seed, func(w *world.World) {
		x = &exec{w: w, sc: sc}
		if err := x.setup(p); err != nil {
			setupErr = err.Error()
			return
		}
		x.run()
		v = x.judge()
		x.pr.CloseAll()
	})
	if strings.HasPrefix(setupErr, "skip:") {
		return run.Outcome{Skip: true, Class: "skipped:" + setupErr[5:]}
	}
	if setupErr != "" {
		return run.Outcome{Violation: "case " + sc.id() + ": setup: " + setupErr, Key: "setup-failed", Class: "SETUP-FAILED"}
	}
	if v == nil {
		return run.Outcome{Violation: "case " + sc.id() + ": execution did not finish: " + clip(leak, 300), Key: "harness-incomplete", Class: "INCOMPLETE"}
	}
	o = x.outcome(v, leak)
	return o
}

func variant(name string) *checks.Variant {
	for _, v := range checks.Variants13() {
		if v.Name == name {
			return &v
		}
	}
	panic("no variant " + name)
}

func withSuite(base *checks.Variant, name string, id dtls.CipherSuiteID) *checks.Variant {
	v := *base
	v.Name += "+" + name
	v.C.Suites = []dtls.CipherSuiteID{id}
	v.S.Suites = []dtls.CipherSuiteID{id}
	return &v
}

func withMTU(base *checks.Variant, mtu int) *checks.Variant {
	v := *base
	v.Name = fmt.Sprintf("%s-mtu%d", base.Name, mtu)
	v.C.MTU, v.S.MTU = mtu, mtu
	return &v
}

func withCID(base *checks.Variant) *checks.Variant {
	v := *base
	v.Name += "+cid4"
	v.C.CIDLen, v.S.CIDLen = 4, 4
	return &v
}

// sequences returns every operation sequence of length 1..max.
func sequences(max int) [][]opKind {
	var out [][]opKind
	var rec func(cur []opKind)
	rec = func(cur []opKind) {
		if len(cur) > 0 {
			out = append(out, append([]opKind(nil), cur...))
		}
		if len(cur) == max {
			return
		}
		for k := opKind(0); k < numOps; k++ {
			rec(append(cur, k))
		}
	}
	rec(nil)
	// shorter sequences first
	var sorted [][]opKind
	for l := 1; l <= max; l++ {
		for _, s := range out {
			if len(s) == l {
				sorted = append(sorted, s)
			}
		}
	}
	return sorted
}

func hasU(ops []opKind) bool {
	for _, o := range ops {
		if o.isU() {
			return true
		}
	}
	return false
}

// masksFor enumerates every mask with at most k deviations over the datagrams the two sides emit in the
// data phase of ops (static upper bound on their number, plus `extra` positions for the retransmissions a
// first deviation provokes).
func masksFor(ops []opKind, k int, acts []world.Action, extra int) []world.Mask {
	nc, ns := staticCounts(ops)
	type pos struct {
		c   bool
		idx int
	}
	var positions []pos
	for i := 0; i < nc+extra; i++ {
		positions = append(positions, pos{true, i})
	}
	for i := 0; i < ns+extra; i++ {
		positions = append(positions, pos{false, i})
	}
	out := []world.Mask{nil}
	if k >= 1 {
		for _, p := range positions {
			if (p.c && p.idx >= nc) || (!p.c && p.idx >= ns) {
				continue // a single deviation beyond the fault-free emissions can never fire
			}
			for _, a := range acts {
				out = append(out, world.Mask{{FromClient: p.c, Idx: p.idx, Act: a}})
			}
		}
	}
	if k >= 2 {
		for i := 0; i < len(positions); i++ {
			for j := i + 1; j < len(positions); j++ {
				for _, a := range acts {
					for _, b := range acts {
						out = append(out, world.Mask{
							{FromClient: positions[i].c, Idx: positions[i].idx, Act: a},
							{FromClient: positions[j].c, Idx: positions[j].idx, Act: b},
						})
					}
				}
			}
		}
	}
	return out
}

var quickActs = []world.Action{world.ActDrop, world.ActDup, world.ActSwap, world.ActHold1}

type bounds struct {
	SeqLen1   int   // sequence length bound for <=1 deviation
	SeqLen2   int   // sequence length bound for <=2 deviations
	SeqLen0   int   // sequence length bound for fault-free schedules
	Gaps      []int // overlaps
	ForgeLen  int
	ReplayLen int
}

func boundsFor(thorough bool) bounds {
	if thorough {
		return bounds{SeqLen1: 4, SeqLen2: 3, SeqLen0: 5, Gaps: []int{0, 1, 2, 3}, ForgeLen: 3, ReplayLen: 3}
	}
	return bounds{SeqLen1: 3, SeqLen2: 2, SeqLen0: 3, Gaps: []int{0, 1, 2}, ForgeLen: 2, ReplayLen: 2}
}

// enumerate calls add for every scenario of the tier, in a fixed order; every scenario has a distinct id
// by construction (the families are disjoint).
func enumerate(thorough bool, add0 func(s scen)) {
	seenID := map[string]bool{}
	add := func(s scen) {
		seenID[s.id()] = true
		add0(s)
	}
	base := variant("13-direct")
	b := boundsFor(thorough)
	acts1 := quickActs
	lossDup := []world.Action{world.ActDrop, world.ActDup}
	if thorough {
		acts1 = checks.AllFaultActions
	}
	// A. operation sequences x overlap x <=1 deviation
	for _, ops := range sequences(b.SeqLen1) {
		for _, g := range b.Gaps {
			if len(ops) == 1 && g != 0 {
				continue
			}
			for _, m := range masksFor(ops, 1, acts1, 0) {
				add(scen{V: base, Ops: ops, Gap: g, Mask: m})
			}
		}
	}
	// B. exactly 2 deviations (the longest sequences of the tier with loss and duplication only)
	for _, ops := range sequences(b.SeqLen2) {
		if !hasU(ops) {
			continue
		}
		acts, extra := quickActs, 2
		if len(ops) >= b.SeqLen2 && len(ops) > 1 {
			acts, extra = lossDup, 1
		}
		for _, g := range b.Gaps {
			if len(ops) == 1 && g != 0 {
				continue
			}
			for _, m := range masksFor(ops, 2, acts, extra) {
				if len(m) == 2 {
					add(scen{V: base, Ops: ops, Gap: g, Mask: m})
				}
			}
		}
	}
	// C. longer sequences, fault-free schedule (all overlaps)
	for _, ops := range sequences(b.SeqLen0) {
		if len(ops) <= b.SeqLen1 {
			continue
		}
		for _, g := range b.Gaps {
			add(scen{V: base, Ops: ops, Gap: g})
		}
	}
	// D. late byte copies of every data-phase datagram (replay across generations), <=1 deviation
	for _, ops := range sequences(b.ReplayLen) {
		if !hasU(ops) {
			continue
		}
		for _, g := range []int{0, 2} {
			if len(ops) == 1 && g != 0 {
				continue
			}
			for _, m := range masksFor(ops, 1, quickActs, 0) {
				add(scen{V: base, Ops: ops, Gap: g, Mask: m, Replay: true})
			}
		}
	}
	// E. forged records at every quiescent point of sequentially executed sequences, followed by one
	// genuine write in each direction
	for _, ops := range sequences(b.ForgeLen) {
		if !hasU(ops) {
			continue
		}
		full := append(append([]opKind(nil), ops...), opWc, opWs)
		for at := 0; at <= len(full); at++ {
			for _, to := range []side{cli, srv} {
				for _, kind := range []injKind{injNext, injNext2, injOld, injLegacy} {
					if kind == injOld && staticAuth(full[:at], to) == 0 {
						continue
					}
					add(scen{V: base, Ops: full, Gap: -1, Inj: &inject{At: at, To: to, Kind: kind}})
				}
			}
		}
	}
	// G. epoch-bit wrap-around: 4 and 5 updates in a row (epochs 7 and 8 share their two header bits with
	// epochs 3 and 4), then forged records, one write in each direction, and late copies
	for _, n := range []int{4, 5} {
		for k := opUcNo; k <= opUsReq; k++ {
			var ops []opKind
			for i := 0; i < n; i++ {
				ops = append(ops, k)
			}
			full := append(append([]opKind(nil), ops...), opWc, opWs)
			for _, to := range []side{cli, srv} {
				for _, kind := range []injKind{injNext, injNext2, injOld} {
					if kind == injOld && staticAuth(ops, to) == 0 {
						continue
					}
					add(scen{V: base, Ops: full, Gap: -1, Inj: &inject{At: n, To: to, Kind: kind}})
				}
			}
			add(scen{V: base, Ops: full, Gap: -1, Replay: true})
			add(scen{V: base, Ops: full, Gap: 0, Replay: true})
			add(scen{V: base, Ops: full, Gap: 2, Mask: world.Mask{{FromClient: k.side() == cli, Idx: n - 1, Act: world.ActDrop}}, Replay: true})
		}
	}
	// H. pile-ups: one side issues a burst U, then 2..L further operations of its own from {U, W}, all
	// started at the same quiescent point (the first KeyUpdate is unacknowledged, everything else queues
	// behind it), while the peer starts nothing, a Write, or an UpdateKeys with or without a request for a
	// peer update; fault-free and with the bursting side's first datagram held back by one emission.
	pile := 4
	if thorough {
		pile = 5
	}
	for _, sd := range []side{cli, srv} {
		uNo, uReq, wr := opUcNo, opUcReq, opWc
		pNo, pReq, pW := opUsNo, opUsReq, opWs
		if sd == srv {
			uNo, uReq, wr, pNo, pReq, pW = opUsNo, opUsReq, opWs, opUcNo, opUcReq, opWc
		}
		var tails [][]opKind
		var rec func(cur []opKind)
		rec = func(cur []opKind) {
			if len(cur) >= 2 {
				tails = append(tails, append([]opKind(nil), cur...))
			}
			if len(cur) == pile {
				return
			}
			rec(append(cur, uNo))
			rec(append(cur, wr))
		}
		rec(nil)
		for _, first := range []opKind{uNo, uReq} {
			for _, tail := range tails {
				for _, peer := range [][]opKind{nil, {pW}, {pNo}, {pReq}} {
					ops := append(append([]opKind{first}, tail...), peer...)
					for _, m := range []world.Mask{nil, {{FromClient: sd == cli, Idx: 0, Act: world.ActHold1}}} {
						sc := scen{V: base, Ops: ops, Gap: 0, Mask: m}
						if !seenID[sc.id()] {
							add(sc)
						}
					}
				}
			}
		}
	}
	// T. a small MTU (the server's NewSessionTicket spans several datagrams) with one of those datagrams lost
	// once, then operation sequences that need the ticket's message_seq to have been passed
	small := withMTU(base, 48)
	for k := 1; k <= 6; k++ {
		for _, ops := range [][]opKind{{opUsNo, opWs}, {opUsReq, opWs, opWc}, {opUcNo, opWc, opWs}, {opUsNo, opUsNo, opWs}} {
			add(scen{V: small, Ops: ops, Gap: -1, TicketDrop: k})
		}
	}
	// T2. the same loss, but the operations start while the ticket is still unacknowledged (no retransmission
	// has happened yet): a key update next to another post-handshake flight of the same sender
	for _, v := range []*checks.Variant{base, small} {
		for k := 1; k <= 4; k++ {
			for _, ops := range [][]opKind{{opUsNo, opWs}, {opUsNo, opWs, opWs, opWc}, {opUsReq, opWs, opWc}, {opUcNo, opWc, opWs}, {opUsNo, opUsNo, opWs}} {
				for _, g := range []int{-1, 0, 1, 2, 3} {
					add(scen{V: v, Ops: ops, Gap: g, TicketDrop: k, NoSettle: true})
				}
			}
		}
	}
	// X. one datagram of a side refused by its transport (the KeyUpdate itself, its acknowledgement, the answer to a
	// requested update, a data record), then more updates and writes by that side and by its peer
	for _, ops := range [][]opKind{{opUsNo, opUsNo, opWs, opWc}, {opUcNo, opUcNo, opWc, opWs}, {opUsReq, opWs, opWc, opUcNo, opWc}, {opUcReq, opWc, opWs, opUsNo, opWs}, {opUsNo, opWs, opUsNo, opWs}} {
		for _, sd := range []side{cli, srv} {
			for nth := 1; nth <= 4; nth++ {
				for _, g := range []int{-1, 1} {
					add(scen{V: base, Ops: ops, Gap: g, FailSide: sd, FailNth: nth})
				}
			}
		}
	}
	// Y. the application gives up on its first UpdateKeys (context cancelled) while the KeyUpdate is out and its
	// acknowledgement is late or lost; then the same side updates again and both sides write
	for _, ops := range [][]opKind{{opUcNo, opUcNo, opWc, opWs}, {opUsNo, opUsNo, opWs, opWc}, {opUcReq, opUcNo, opWc, opWs}, {opUcNo, opWc, opWs}} {
		for ca := 1; ca <= 3; ca++ {
			for _, m := range []world.Mask{nil, {{FromClient: false, Idx: 0, Act: world.ActDrop}}, {{FromClient: false, Idx: 0, Act: world.ActHold3}},
				{{FromClient: true, Idx: 0, Act: world.ActDrop}}, {{FromClient: true, Idx: 0, Act: world.ActHold3}}} {
				add(scen{V: base, Ops: ops, Gap: -1, Mask: m, CancelFirst: ca})
			}
		}
	}
	// F. other configurations: connection IDs, other suites
	others := []*checks.Variant{withCID(base)}
	otherLen := 2
	if thorough {
		others = append(others,
			withSuite(base, "chacha", dtls.TLS_CHACHA20_POLY1305_SHA256),
			withSuite(base, "aes256", dtls.TLS_AES_256_GCM_SHA384),
			withCID(withSuite(base, "chacha", dtls.TLS_CHACHA20_POLY1305_SHA256)))
		otherLen = 3
	}
	for _, v := range others {
		for _, ops := range sequences(otherLen) {
			if !hasU(ops) {
				continue
			}
			for _, g := range []int{0, 1} {
				if len(ops) == 1 && g != 0 {
					continue
				}
				for _, m := range masksFor(ops, 1, quickActs, 0) {
					add(scen{V: v, Ops: ops, Gap: g, Mask: m})
				}
			}
			add(scen{V: v, Ops: ops, Gap: 0, Replay: true})
			full := append(append([]opKind(nil), ops...), opWc, opWs)
			for _, to := range []side{cli, srv} {
				for _, kind := range []injKind{injNext, injOld} {
					at := len(ops)
					if kind == injOld && staticAuth(full[:at], to) == 0 {
						continue
					}
					add(scen{V: v, Ops: full, Gap: -1, Inj: &inject{At: at, To: to, Kind: kind}})
				}
			}
		}
	}
}

// staticAuth is the read generation `to` has authorised after ops ran sequentially: one per KeyUpdate the
// peer sent (its own calls and its answers to requests).
func staticAuth(ops []opKind, to side) int {
	n := 0
	for _, o := range ops {
		if !o.isU() {
			continue
		}
		if o.side() == to.peer() || o.req() {
			n++
		}
	}
	return n
}

func TestC20(t *testing.T) {
	env := run.GetEnv()
	p := world.GetPKI(t)
	b := boundsFor(env.Thorough())
	total := 0
	enumerate(env.Thorough(), func(scen) { total++ })
	// Only the cases of this worker's shard are materialised (the list has several 10^5 entries in the
	// thorough tier and a large live heap slows every collection); the others keep their index as zero
	// entries, which run.Main never touches.
	cases := make([]run.Case, total)
	idx := 0
	enumerate(env.Thorough(), func(sc scen) {
		i := idx
		idx++
		switch {
		case env.Only != "":
			if sc.id() != env.Only {
				return
			}
		case i%env.NShards != env.Shard || i < env.From:
			return
		}
		cases[i] = run.Case{ID: sc.id(), Run: func(t *testing.T) run.Outcome { return runCase(t, p, sc, env.Seed) }}
	})
	run.Main(t, "C20", cases, map[string]any{
		"alphabet": opNames[:], "seq_len_1dev": b.SeqLen1, "seq_len_2dev": b.SeqLen2, "seq_len_0dev": b.SeqLen0,
		"overlaps": b.Gaps, "forge_len": b.ForgeLen, "replay_len": b.ReplayLen, "scenarios": total,
	})
}

// TestC20IDs checks that the enumeration yields pairwise distinct case ids (run by hand).
func TestC20IDs(t *testing.T) {
	for _, th := range []bool{false, true} {
		seen := map[string]bool{}
		enumerate(th, func(s scen) {
			if id := s.id(); seen[id] {
				t.Fatalf("duplicate case id %s", id)
			} else {
				seen[id] = true
			}
		})
		t.Logf("thorough=%v: %d distinct cases", th, len(seen))
	}
}
