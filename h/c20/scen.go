//go:build verif

package c20

import (
	"bytes"
	"context"
	"errors"
	"fmt"
	"sort"
	"strings"
	"sync"
	"time"

	dtls "github.com/pion/dtls/v3"
	dtlsstate "github.com/pion/dtls/v3/internal/state"
	"github.com/pion/dtls/v3/zzverif/checks"
	"github.com/pion/dtls/v3/zzverif/refimpl"
	"github.com/pion/dtls/v3/zzverif/world"
)

// ---------------------------------------------------------------------------------------------
// Scenario description

type opKind int

const (
	opUcNo  opKind = iota // client UpdateKeys{RequestPeerUpdate:false}
	opUcReq               // client UpdateKeys{RequestPeerUpdate:true}
	opUsNo                // server UpdateKeys{false}
	opUsReq               // server UpdateKeys{true}
	opWc                  // client Write(distinct payload)
	opWs                  // server Write(distinct payload)
	numOps
)

var opNames = [...]string{"Uc", "UcR", "Us", "UsR", "Wc", "Ws"}

func (k opKind) String() string { return opNames[k] }
func (k opKind) isU() bool      { return k <= opUsReq }
func (k opKind) req() bool      { return k == opUcReq || k == opUsReq }
func (k opKind) side() side {
	if k == opUcNo || k == opUcReq || k == opWc {
		return cli
	}
	return srv
}

func opsString(ops []opKind) string {
	s := make([]string, len(ops))
	for i, o := range ops {
		s[i] = o.String()
	}
	return strings.Join(s, ".")
}

type injKind int

const (
	injNext   injKind = iota // sealed under generation authorised+1 (queueable future epoch)
	injNext2                 // sealed under generation authorised+2 (beyond the queueable future epoch)
	injOld                   // sealed under every generation older than the authorised one, each sent twice
	injLegacy                // junk (no keys) in DTLSPlaintext framing naming the receiver's current and next epoch, far-ahead sequence numbers
)

var injNames = [...]string{"next", "next2", "old", "legacy"}

type inject struct {
	At   int // injected at the quiescent point before operation At (len(Ops) = after the last one)
	To   side
	Kind injKind
}

type scen struct {
	V      *checks.Variant // shared, never modified
	Ops    []opKind
	Gap    int        // network transitions between two operation starts; -1 = every operation runs to full quiescence
	Mask   world.Mask // fault indices are relative to the start of the data phase
	Replay bool       // after quiescence a byte copy of every data-phase datagram is delivered once more
	Inj    *inject    // forged record (requires Gap == -1 and an empty mask)
	// TicketDrop k > 0: the k-th datagram the server emits from the moment its handshake call returns (its
	// NewSessionTicket, fragmented when the MTU is small) is lost once; retransmissions are delivered
	TicketDrop int
	// NoSettle (with TicketDrop): the operations start as soon as both handshake calls have returned, while the
	// lost NewSessionTicket datagram has not been retransmitted yet: the ticket flight is still unacknowledged
	// when the first key update starts (without it the association is run to full quiescence first)
	NoSettle bool
	// FailSide / FailNth (FailNth > 0): the FailNth-th datagram that side hands to its transport in the data
	// phase is refused once (transient local send error): nothing leaves for it. Whatever the library makes of
	// the failed send, calls that then report success must still mean what the property says.
	FailSide side
	FailNth  int
	// CancelFirst >= 0: the context given to the FIRST operation (an UpdateKeys) is cancelled after that many
	// network transitions — the application gives up waiting while the KeyUpdate is out and its acknowledgement
	// is late or lost. The call then reports the cancellation; what the LATER calls report is judged as always.
	CancelFirst int
}

func (s scen) id() string {
	id := fmt.Sprintf("%s/%s/g%d/%s", s.V.Name, opsString(s.Ops), s.Gap, s.Mask)
	if s.Gap < 0 {
		id = fmt.Sprintf("%s/%s/seq/%s", s.V.Name, opsString(s.Ops), s.Mask)
	}
	if s.Replay {
		id += "/replay"
	}
	if s.Inj != nil {
		id += fmt.Sprintf("/forge-%s@%d->%s", injNames[s.Inj.Kind], s.Inj.At, s.Inj.To)
	}
	if s.TicketDrop > 0 {
		id += fmt.Sprintf("/ticket-datagram-%d-lost", s.TicketDrop)
	}
	if s.NoSettle {
		id += "-still-pending"
	}
	if s.FailNth > 0 {
		id += fmt.Sprintf("/send%d-of-%s-refused", s.FailNth, s.FailSide)
	}
	if s.CancelFirst > 0 {
		id += fmt.Sprintf("/first-call-cancelled-after-%d", s.CancelFirst-1)
	}
	return id
}

// ---------------------------------------------------------------------------------------------
// Execution

type opRec struct {
	idx       int
	kind      opKind
	op        *world.Op
	payload   []byte
	startStep int
	doneStep  int // first harness step after which the call was observed to have returned; -1 = never
	cancel    context.CancelFunc
	cancelled bool
}

type readItem struct {
	step int
	data []byte
}

type delivery struct {
	step int
	id   int // datagram id in the emission log
	to   side
}

type forged struct {
	to        side
	kind      injKind
	gen       int
	seq       uint64
	payload   []byte
	step      int
	copies    int
	authAtInj int // generation the receiver had authorised (independent count) when the record was injected
}

type exec struct {
	w  *world.World
	pr *world.Pair
	n  *world.Net
	sc scen

	mu    sync.Mutex
	step  int
	reads [2][]readItem

	ops        []*opRec
	deliveries []delivery
	forgedRecs []*forged
	events     []string
	readers    [2]*world.Op

	baseLog  int    // emission-log length at the start of the data phase
	baseDir  [2]int // datagrams each side had emitted before the data phase
	chains   [2]*chain
	cidLen   [2]int    // CID length carried by records EMITTED by that side
	cid      [2][]byte // CID carried by records emitted by that side
	suite    *refimpl.Suite
	tr       *world.Tracer
	problems []problem // violations found while the scenario runs (forged-record part)
	retHist  [2][]uint32
}

type problem struct {
	key  string
	text string
}

func (x *exec) ep(s side) *world.Endpoint {
	if s == cli {
		return x.pr.C
	}
	return x.pr.S
}

func sideOf(a world.Addr) side {
	if a == world.ClientAddr {
		return cli
	}
	return srv
}

// curStep returns the label of the harness transition in progress.
func (x *exec) curStep() int {
	x.mu.Lock()
	defer x.mu.Unlock()
	return x.step
}

// endStep closes the transition in progress: calls that have returned by now are stamped with it.
func (x *exec) endStep() {
	x.w.Settle()
	x.mu.Lock()
	s := x.step
	x.step++
	x.mu.Unlock()
	for _, o := range x.ops {
		if o.doneStep < 0 && o.op.Done() {
			o.doneStep = s
		}
	}
	// read generations installed at the end of step s (bit g = epoch 3+g)
	if x.pr != nil && x.chains[cli] != nil {
		for _, sd := range []side{cli, srv} {
			var mask uint32
			for e := range x.view(sd, len(x.chains[cli].keys)-1).retained {
				mask |= 1 << uint(int(e)-firstAppEp)
			}
			for len(x.retHist[sd]) <= s {
				x.retHist[sd] = append(x.retHist[sd], mask)
			}
		}
	}
}

// retainedAt reports whether side sd had read generation g installed at the end of step s, and whether it
// had it installed at the end of any step <= s.
func (x *exec) retainedAt(sd side, s, g int) (now, ever bool) {
	h := x.retHist[sd]
	if s >= len(h) {
		s = len(h) - 1
	}
	for i := 0; i <= s; i++ {
		if h[i]&(1<<uint(g)) != 0 {
			ever = true
		}
	}
	return s >= 0 && h[s]&(1<<uint(g)) != 0, ever
}

// onEvent is the network observer: one call per network transition, after the world has settled.
func (x *exec) onEvent(ev string) {
	x.events = append(x.events, ev)
	f := strings.Fields(ev)
	if len(f) >= 2 && strings.HasPrefix(f[1], "#") {
		var id int
		if _, err := fmt.Sscanf(f[1], "#%d", &id); err == nil {
			switch f[0] {
			case "deliver", "release", "DUP", "DUPLATE":
				log := x.w.Emitted()
				if id < len(log) {
					x.deliveries = append(x.deliveries, delivery{step: x.curStep(), id: id, to: sideOf(log[id].Dst)})
				}
			}
		}
	}
	if x.tr != nil {
		x.tr.Visit(x.pr.StateString(x.n), world.AbstractEvent(ev))
	}
	x.endStep()
}

const quietRound = 61 * time.Second // longer than the largest retransmission interval (60 s cap)

// quiesce pumps (reliable apart from the remaining mask faults) until a whole round longer than the
// largest retransmission interval passes without any emission, nothing is in flight and nothing is held.
func (x *exec) quiesce() bool {
	for round := 0; round < 8; round++ {
		before := x.w.EmittedCount()
		_ = x.n.Pump(quietRound, nil)
		x.endStep()
		if x.w.EmittedCount() == before && x.w.Head() == nil && x.n.HeldCount() == 0 {
			return true
		}
	}
	return false
}

func (x *exec) startReader(s side) {
	e := x.ep(s)
	x.readers[s] = x.w.Go(e.Name+".ReadLoop", func(*world.Op) error {
		buf := make([]byte, 4096)
		for {
			k, err := e.Conn.Read(buf)
			if err != nil {
				return err
			}
			x.mu.Lock()
			x.reads[s] = append(x.reads[s], readItem{step: x.step, data: append([]byte(nil), buf[:k]...)})
			x.mu.Unlock()
		}
	})
	x.w.Settle()
}

func (x *exec) startOp(i int, k opKind) {
	e := x.ep(k.side())
	o := &opRec{idx: i, kind: k, startStep: x.curStep(), doneStep: -1}
	if k.isU() {
		req := k.req()
		ctx := context.Background()
		if i == 0 && x.sc.CancelFirst > 0 {
			ctx, o.cancel = context.WithCancel(ctx)
		}
		o.op = x.w.Go(fmt.Sprintf("%s.UpdateKeys#%d", e.Name, i), func(*world.Op) error {
			return e.Conn.UpdateKeys(ctx, dtls.KeyUpdateOptions{RequestPeerUpdate: req})
		})
	} else {
		o.payload = []byte(fmt.Sprintf("payload-%d-from-%s-%s", i, k.side(), strings.Repeat("x", 3+i)))
		p := o.payload
		o.op = x.w.Go(fmt.Sprintf("%s.Write#%d", e.Name, i), func(op *world.Op) error {
			n, err := e.Conn.Write(p)
			op.Set(n, nil)
			return err
		})
	}
	x.ops = append(x.ops, o)
	x.w.Logf("op %d %s started", i, k)
	x.endStep()
}

// push delivers bytes out of band (forged or replayed datagram).
func (x *exec) push(src, dst side, b []byte) {
	x.w.Push(x.ep(src).Addr, x.ep(dst).Addr, b)
	x.endStep()
}

// decodeFrom decodes every data-phase datagram with id >= from.
func (x *exec) decodeFrom(from int) []rec {
	var out []rec
	for _, d := range x.w.Emitted() {
		if d.ID < from {
			continue
		}
		s := sideOf(d.Src)
		out = append(out, decodeDatagram(x.chains[s], x.cidLen[s], s, d.ID, d.Data)...)
	}
	return out
}

// authorisedGen is the harness's own count of the read generation `to` has been told to move to:
// the number of distinct KeyUpdate messages of the peer contained in datagrams delivered to `to`.
// It also returns the step at which each generation became authorised (index g, g >= 1).
func (x *exec) authorisedGen(to side, recs []rec) (int, []int) {
	byDg := map[int][]rec{}
	for _, r := range recs {
		byDg[r.DgID] = append(byDg[r.DgID], r)
	}
	seen := map[uint16]bool{}
	steps := []int{0}
	for _, dl := range x.deliveries {
		if dl.to != to {
			continue
		}
		for _, r := range byDg[dl.id] {
			for _, m := range r.HS {
				if m.Type == hsKeyUpdate && !seen[m.Seq] {
					seen[m.Seq] = true
					steps = append(steps, dl.step)
				}
			}
		}
	}
	return len(steps) - 1, steps
}

type endpointView struct {
	localEpoch, remoteEpoch uint16
	retained                map[uint16]bool // read generations (by epoch) still installed
	closed                  bool
	queued                  int
}

func (x *exec) view(s side, maxGen int) endpointView {
	v := endpointView{retained: map[uint16]bool{}}
	dtls.VerifPeek(x.ep(s).Conn, func(in dtls.VerifInternals) {
		cs := dtlsstate.CommonState(in.State)
		v.localEpoch, v.remoteEpoch = cs.LocalEpoch(), cs.RemoteEpoch()
		v.closed = in.Closed
		v.queued = in.QueuedEncrypted
		if st, ok := in.State.(*dtlsstate.State13); ok && st.TrafficKeys != nil {
			for g := 0; g <= maxGen; g++ {
				if gen, ok := st.TrafficKeys.Read(uint16(firstAppEp + g)); ok && gen != nil {
					v.retained[uint16(firstAppEp+g)] = true
				}
			}
		}
	})
	return v
}

func (x *exec) problemf(key, format string, a ...any) {
	x.problems = append(x.problems, problem{key: key, text: fmt.Sprintf(format, a...)})
}

// doInject performs the forged-record step at a fully quiescent point.
func (x *exec) doInject(in inject, maxGen int) {
	to, from := in.To, in.To.peer()
	recs := x.decodeFrom(x.baseLog)
	auth, _ := x.authorisedGen(to, recs)
	ch := x.chains[from] // records travelling from -> to are protected with from's sending chain
	type one struct {
		gen int
		seq uint64
		n   int
	}
	var plan []one
	switch in.Kind {
	case injNext:
		plan = append(plan, one{auth + 1, 40, 1})
	case injNext2:
		plan = append(plan, one{auth + 2, 0, 1})
	case injOld:
		for g := 0; g < auth; g++ {
			plan = append(plan, one{g, uint64(50 + g), 2})
		}
	}
	before := x.view(to, maxGen)
	emittedBefore := x.w.EmittedCount()
	readsBefore := len(x.readsOf(to))
	if in.Kind == injLegacy {
		// Unauthenticated records in DTLS 1.2 record framing that name a protected epoch: they cannot open
		// under any key, so they must leave no trace — in particular not in the anti-replay state of that
		// epoch (the genuine writes that follow must still be delivered).
		for _, ep := range []int{firstAppEp + auth, firstAppEp + auth + 1} {
			for _, typ := range []byte{22, 21, 26, 23} {
				for _, seq := range []uint64{100000, 1 << 40} {
					body := []byte(fmt.Sprintf("LEGACY-FRAMED-JUNK-%d-%d-%d-0123456789abcdef", ep, typ, seq))
					rec := []byte{typ, 0xfe, 0xfd, byte(ep >> 8), byte(ep), byte(seq >> 40), byte(seq >> 32), byte(seq >> 24), byte(seq >> 16), byte(seq >> 8), byte(seq), byte(len(body) >> 8), byte(len(body))}
					x.w.Logf("inject legacy-framed junk type %d epoch %d seq %d -> %s", typ, ep, seq, to)
					x.push(from, to, append(rec, body...))
				}
			}
		}
		x.quiesce()
		after := x.view(to, maxGen)
		if got := x.readsOf(to); len(got) != readsBefore {
			x.problemf("unauthenticated-legacy-framed-record-delivered", "an unauthenticated record in DTLS 1.2 framing was delivered to %s.Read (%q)", to, got[len(got)-1].data)
		}
		if after.remoteEpoch != before.remoteEpoch || after.localEpoch != before.localEpoch || after.closed != before.closed {
			x.problemf("unauthenticated-legacy-framed-record-changed-state", "epochs/closed changed from %d/%d/%v to %d/%d/%v after unauthenticated records in DTLS 1.2 framing",
				before.localEpoch, before.remoteEpoch, before.closed, after.localEpoch, after.remoteEpoch, after.closed)
		}
		return
	}
	for _, p := range plan {
		if p.gen > maxGen {
			continue
		}
		f := &forged{to: to, kind: in.Kind, gen: p.gen, seq: p.seq, copies: p.n, step: x.curStep(), authAtInj: auth,
			payload: []byte(fmt.Sprintf("FORGED-%s-g%d-s%d-to-%s", injNames[in.Kind], p.gen, p.seq, to))}
		b, err := sealForged(ch, p.gen, p.seq, x.cid[from], f.payload)
		if err != nil {
			x.problemf("harness-seal", "sealing forged record: %v", err)
			return
		}
		x.forgedRecs = append(x.forgedRecs, f)
		for i := 0; i < p.n; i++ {
			x.w.Logf("inject forged %s gen %d (epoch %d) seq %d -> %s (authorised gen %d)", injNames[in.Kind], p.gen, firstAppEp+p.gen, p.seq, to, auth)
			x.push(from, to, b)
		}
	}
	x.quiesce()
	if in.Kind == injOld {
		return
	}
	// A record under a generation the receiver has not authorised: nothing observable may happen.
	after := x.view(to, maxGen)
	if got := x.readsOf(to); len(got) != readsBefore {
		x.problemf("unauthorised-epoch-record-delivered", "record sealed under generation %d (epoch %d) was delivered to %s.Read (%q) while %s had authorised only generation %d",
			auth+1+int(in.Kind), firstAppEp+auth+1+int(in.Kind), to, got[len(got)-1].data, to, auth)
	}
	if n := x.w.EmittedCount(); n != emittedBefore {
		x.problemf("unauthorised-epoch-record-answered", "%d datagram(s) were emitted in reaction to a record under the unauthorised generation %d", n-emittedBefore, auth+1+int(in.Kind))
	}
	if after.remoteEpoch != before.remoteEpoch || after.localEpoch != before.localEpoch || after.closed != before.closed {
		x.problemf("unauthorised-epoch-record-changed-state", "epochs/closed changed from %d/%d/%v to %d/%d/%v after a record under the unauthorised generation %d",
			before.localEpoch, before.remoteEpoch, before.closed, after.localEpoch, after.remoteEpoch, after.closed, auth+1+int(in.Kind))
	}
}

func (x *exec) readsOf(s side) []readItem {
	x.mu.Lock()
	defer x.mu.Unlock()
	return append([]readItem(nil), x.reads[s]...)
}

// maxGenFor bounds the generations any direction can reach in a scenario: one per UpdateKeys of either
// side (a requested update moves the peer as well), plus slack for the forged generations.
func maxGenFor(ops []opKind) int {
	n := 0
	for _, o := range ops {
		if o.isU() {
			n++
		}
	}
	return n + 3
}

// staticCounts is an upper bound on the datagrams each side emits in the fault-free run of ops.
func staticCounts(ops []opKind) (nc, ns int) {
	cnt := [2]int{}
	for _, o := range ops {
		s := o.side()
		switch {
		case !o.isU():
			cnt[s]++
		case o.req():
			cnt[s] += 2        // KeyUpdate, ACK of the peer's answering KeyUpdate
			cnt[s.peer()] += 2 // ACK, answering KeyUpdate
		default:
			cnt[s]++
			cnt[s.peer()]++
		}
	}
	return cnt[cli], cnt[srv]
}

// setup establishes the pair over a reliable network and runs it to full quiescence (the server's
// NewSessionTicket and its ACK included), then fixes the reference key chains from the first
// application traffic secrets.
func (x *exec) setup(p *world.PKI) error {
	pr, err := x.sc.V.Setup(x.w, p)
	if err != nil {
		return err
	}
	x.pr = pr
	n0 := world.NewNet(x.w, world.ClientAddr, nil)
	if x.sc.TicketDrop > 0 {
		_ = n0.Pump(30*time.Second, func() bool { return pr.S.HS.Done() })
		// what the server emits at that moment under the application traffic keys (unified header, epoch
		// bits 3): its acknowledgement of the client's Finished and the NewSessionTicket fragments
		var app []int
		for _, d := range x.w.InFlight() {
			if d.Src == world.ServerAddr && len(d.Data) > 0 && d.Data[0]&0xe0 == 0x20 && d.Data[0]&0x03 == 3 {
				app = append(app, d.Dir)
			}
		}
		if x.sc.TicketDrop > len(app) {
			return fmt.Errorf("skip: only %d datagrams of the application epoch in flight", len(app))
		}
		first := app[0]
		for _, v := range app {
			if v < first {
				first = v
			}
		}
		if x.sc.NoSettle {
			// lose it right here: the data phase has its own delivery policy
			for _, d := range x.w.InFlight() {
				if d.Src == world.ServerAddr && d.Dir == app[x.sc.TicketDrop-1] {
					x.w.Take(d)
				}
			}
		} else {
			n0.AddFault(false, app[x.sc.TicketDrop-1], world.ActDrop)
		}
		_ = first
		if x.w.Verbose {
			for _, d := range x.w.InFlight() {
				x.w.Logf("ticketdrop: in flight #%d dir=%d %s -> %s %s", d.ID, d.Dir, d.Src, d.Dst, world.Describe(d.Data))
			}
			x.w.Logf("ticketdrop: dropping server datagram index %d", app[x.sc.TicketDrop-1])
		}
	}
	if err := n0.Pump(30*time.Second, pr.BothDone); x.sc.TicketDrop > 0 && (err != nil || !pr.BothOK()) {
		// completion of the handshake under loss is C02's subject (its known finding: a lost final ACK)
		return fmt.Errorf("skip: the handshake did not complete with that datagram lost")
	} else if err != nil || !pr.BothOK() {
		return fmt.Errorf("handshake failed: pump=%v client=%v server=%v", err, pr.C.HS, pr.S.HS)
	}
	for round := 0; !x.sc.NoSettle; round++ {
		before := x.w.EmittedCount()
		_ = n0.Pump(quietRound, nil)
		if x.w.EmittedCount() == before && x.w.Head() == nil {
			break
		}
		if round > 6 {
			return fmt.Errorf("association never became quiet after the handshake")
		}
	}
	var sec [2][2][]byte // [endpoint][direction]
	var suiteID [2]uint16
	for _, s := range []side{cli, srv} {
		s := s
		dtls.VerifPeek(x.ep(s).Conn, func(in dtls.VerifInternals) {
			cs := dtlsstate.CommonState(in.State)
			if cs.CipherSuite != nil {
				suiteID[s] = uint16(cs.CipherSuite.ID())
			}
			if st, ok := in.State.(*dtlsstate.State13); ok {
				sec[s][cli] = append([]byte(nil), st.KeySchedule.ClientApplicationTrafficSecret0...)
				sec[s][srv] = append([]byte(nil), st.KeySchedule.ServerApplicationTrafficSecret0...)
				if st.CID.Negotiated && st.CID.Send.UseCID {
					x.cid[s] = append([]byte(nil), st.CID.Send.Active...)
				}
			}
		})
		x.cidLen[s] = len(x.cid[s])
	}
	if len(sec[cli][cli]) == 0 || !bytes.Equal(sec[cli][cli], sec[srv][cli]) || !bytes.Equal(sec[cli][srv], sec[srv][srv]) || suiteID[cli] != suiteID[srv] {
		return fmt.Errorf("endpoints disagree on the first application traffic secrets / suite")
	}
	suite, ok := refimpl.SuiteByID(suiteID[cli])
	if !ok || !suite.TLS13 {
		return fmt.Errorf("suite %#x is not a TLS 1.3 suite of the reference", suiteID[cli])
	}
	x.suite = suite
	mg := maxGenFor(x.sc.Ops)
	x.chains[cli] = newChain(suite, sec[cli][cli], mg)
	x.chains[srv] = newChain(suite, sec[cli][srv], mg)
	x.baseLog = x.w.EmittedCount()
	for _, d := range x.w.Emitted() {
		x.baseDir[sideOf(d.Src)]++
	}
	return nil
}

// run drives the data phase.
func (x *exec) run() {
	sc := x.sc
	var m world.Mask
	for _, f := range sc.Mask {
		s := srv
		if f.FromClient {
			s = cli
		}
		m = append(m, world.Fault{FromClient: f.FromClient, Idx: f.Idx + x.baseDir[s], Act: f.Act})
	}
	x.n = world.NewNet(x.w, world.ClientAddr, m)
	x.n.OnEvent = x.onEvent
	x.tr = &world.Tracer{}
	x.tr.Visit(x.pr.StateString(x.n), "init")
	x.startReader(cli)
	x.startReader(srv)
	x.endStep()
	if sc.FailNth > 0 {
		x.ep(sc.FailSide).PC.FailWriteNumber(sc.FailNth, errors.New("injected transient send error"))
	}
	mg := maxGenFor(sc.Ops)
	for i, k := range sc.Ops {
		if sc.Inj != nil && sc.Inj.At == i {
			x.doInject(*sc.Inj, mg)
		}
		x.startOp(i, k)
		if i == 0 && sc.CancelFirst > 0 && len(x.ops) > 0 && x.ops[0].cancel != nil {
			for g := 0; g < sc.CancelFirst-1; g++ {
				if !x.n.Step() {
					break
				}
			}
			x.w.Settle()
			x.ops[0].cancel()
			x.ops[0].cancelled = true
			x.w.Settle()
			x.w.Logf("context of op 0 cancelled")
		}
		switch {
		case sc.Gap < 0:
			x.quiesce()
		default:
			for g := 0; g < sc.Gap; g++ {
				if !x.n.Step() {
					break
				}
			}
		}
	}
	x.quiesce()
	if sc.Inj != nil && sc.Inj.At >= len(sc.Ops) {
		x.doInject(*sc.Inj, mg)
	}
	if sc.Replay {
		for _, d := range x.w.Emitted() {
			if d.ID < x.baseLog {
				continue
			}
			x.deliveries = append(x.deliveries, delivery{step: x.curStep(), id: d.ID, to: sideOf(d.Dst)})
			x.w.Logf("replay #%d", d.ID)
			x.push(sideOf(d.Src), sideOf(d.Dst), d.Data)
		}
		x.quiesce()
	}
	// stop the readers
	for _, s := range []side{cli, srv} {
		_ = x.ep(s).Conn.SetReadDeadline(time.Unix(1, 0))
	}
	x.endStep()
}

// sortedKeys renders a counter map deterministically.
func sortedKeys(m map[string]int) []string {
	k := make([]string, 0, len(m))
	for s := range m {
		k = append(k, s)
	}
	sort.Strings(k)
	return k
}
