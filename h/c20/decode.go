//go:build verif

package c20

import (
	"bytes"
	"encoding/binary"
	"fmt"

	"github.com/pion/dtls/v3/zzverif/refimpl"
)

// Passive reference decoder for the data phase of a DTLS 1.3 association.
//
// The only key material taken from the library is the pair of FIRST application traffic secrets
// (client_application_traffic_secret_0 / server_application_traffic_secret_0, epoch 3), read once right
// after the handshake. Every later generation is derived here with the reference implementation only:
//
//	secret[g+1] = HKDF-Expand-Label(secret[g], "traffic upd", "", Hash.length)      (RFC 8446 §7.2)
//
// so a record of generation g+1 decodes iff the library's keys are the RFC 8446 successor of generation g.

type side int

const (
	cli side = 0
	srv side = 1
)

func (s side) String() string {
	if s == cli {
		return "c"
	}
	return "s"
}

func (s side) peer() side { return 1 - s }

const (
	ctAlert     = 21
	ctHandshake = 22
	ctAppData   = 23
	ctACK       = 26
	hsKeyUpdate = 24
	firstAppEp  = 3 // RFC 9147 §6.1: epoch 3 carries the first application traffic secret
)

// chain is the reference key chain of one sending direction.
type chain struct {
	suite   *refimpl.Suite
	secrets [][]byte
	keys    []refimpl.Keys13
}

func newChain(suite *refimpl.Suite, secret0 []byte, maxGen int) *chain {
	c := &chain{suite: suite}
	s := append([]byte(nil), secret0...)
	for g := 0; g <= maxGen; g++ {
		c.secrets = append(c.secrets, s)
		c.keys = append(c.keys, refimpl.TrafficKeys13(suite, s))
		s = refimpl.NextTrafficSecret(suite.Hash, s)
	}
	return c
}

// rec is one decoded record.
type rec struct {
	DgID   int
	Idx    int
	Src    side
	Gen    int // reference generation the record opened under; -1 = none
	Epoch  uint16
	Seq    uint64
	Type   uint8
	Body   []byte
	BitsOK bool // the header's epoch bits equal the low bits of 3+Gen
	HS     []hsMsg
	Acks   [][2]uint64
	Hdr    refimpl.UnifiedHeader
	Err    string
}

type hsMsg struct {
	Type uint8
	Seq  uint16
	Body []byte
}

func (r rec) String() string {
	switch {
	case r.Gen < 0:
		return fmt.Sprintf("%s#%d.%d[UNDECODABLE bits=%d %s]", r.Src, r.DgID, r.Idx, r.Hdr.EpochLow, r.Err)
	case r.Type == ctAppData:
		return fmt.Sprintf("%s#%d[e%d s%d data %q]", r.Src, r.DgID, r.Epoch, r.Seq, r.Body)
	case r.Type == ctACK:
		return fmt.Sprintf("%s#%d[e%d s%d ack%v]", r.Src, r.DgID, r.Epoch, r.Seq, r.Acks)
	case r.Type == ctHandshake:
		s := fmt.Sprintf("%s#%d[e%d s%d hs", r.Src, r.DgID, r.Epoch, r.Seq)
		for _, m := range r.HS {
			if m.Type == hsKeyUpdate && len(m.Body) == 1 {
				s += fmt.Sprintf(" KeyUpdate(mseq=%d,req=%d)", m.Seq, m.Body[0])
			} else {
				s += fmt.Sprintf(" type%d(mseq=%d)", m.Type, m.Seq)
			}
		}
		return s + "]"
	case r.Type == ctAlert:
		return fmt.Sprintf("%s#%d[e%d s%d alert %x]", r.Src, r.DgID, r.Epoch, r.Seq, r.Body)
	}
	return fmt.Sprintf("%s#%d[e%d s%d type%d]", r.Src, r.DgID, r.Epoch, r.Seq, r.Type)
}

// decodeDatagram splits a datagram emitted by src into records and opens each under the reference chain.
// Every generation of the chain is tried (not only those matching the two epoch bits), so that a record
// whose epoch bits disagree with its keys is noticed.
func decodeDatagram(ch *chain, cidLen int, src side, id int, data []byte) []rec {
	var out []rec
	for idx := 0; len(data) > 0; idx++ {
		r := rec{DgID: id, Idx: idx, Src: src, Gen: -1}
		if !refimpl.IsUnifiedHeader(data[0]) {
			r.Err = fmt.Sprintf("not a unified header (first byte %#x)", data[0])
			out = append(out, r)
			return out
		}
		one, rest, _, err := refimpl.NextRecord(data, cidLen)
		if err != nil {
			r.Err = err.Error()
			out = append(out, r)
			return out
		}
		r.Hdr, _ = refimpl.ParseUnifiedHeader(one, cidLen)
		for g := range ch.keys {
			got, _, err := refimpl.Open13(ch.suite, ch.keys[g], one, cidLen, 0)
			if err != nil {
				continue
			}
			r.Gen, r.Epoch, r.Seq, r.Type, r.Body = g, uint16(firstAppEp+g), got.Seq, got.Type, got.Payload
			r.BitsOK = uint8((firstAppEp+g)&3) == r.Hdr.EpochLow
			break
		}
		if r.Gen < 0 {
			r.Err = "opens under no reference generation"
		}
		switch r.Type {
		case ctHandshake:
			b := r.Body
			for len(b) > 0 {
				h, frag, rst, err := refimpl.ParseHandshake(b)
				if err != nil {
					break
				}
				r.HS = append(r.HS, hsMsg{Type: h.Type, Seq: h.MessageSeq, Body: frag})
				b = rst
			}
		case ctACK:
			r.Acks = parseACK(r.Body)
		}
		out = append(out, r)
		data = rest
	}
	return out
}

// parseACK decodes RFC 9147 §7: struct { RecordNumber record_numbers<0..2^16-1>; } with
// RecordNumber = uint64 epoch || uint64 sequence_number.
func parseACK(b []byte) [][2]uint64 {
	if len(b) < 2 {
		return nil
	}
	n := int(binary.BigEndian.Uint16(b))
	b = b[2:]
	if n > len(b) {
		n = len(b)
	}
	var out [][2]uint64
	for i := 0; i+16 <= n; i += 16 {
		out = append(out, [2]uint64{binary.BigEndian.Uint64(b[i:]), binary.BigEndian.Uint64(b[i+8:])})
	}
	return out
}

// sealForged seals an application-data record for the direction of ch under generation g.
func sealForged(ch *chain, g int, seq uint64, cid []byte, payload []byte) ([]byte, error) {
	return refimpl.Seal13(ch.suite, ch.keys[g], refimpl.Record13{
		Type: ctAppData, Epoch: uint16(firstAppEp + g), Seq: seq, CID: bytes.Clone(cid), Seq16: true, WithLength: true,
		Payload: payload,
	})
}
