package c10

import (
	"encoding/hex"
	"fmt"
	"sort"
	"strings"
	"testing"

	"github.com/pion/dtls/v3/zzverif/refimpl"
	"github.com/pion/dtls/v3/zzverif/run"
)

// C10 (E3 part) — every derived secret and every protected record equals what the RFCs prescribe, as
// computed by the independent reference (../refimpl) from the same inputs.
//
// Enumerated (all combinations, no sampling):
//
//	r12/…  DTLS 1.2 record protection: suite x header layout (no CID | CID length x zero padding) x
//	       data pattern x writer role | payload length x epoch x sequence number x content type x
//	       record version (x explicit-nonce choice / extra CBC padding for reference-sealed records)
//	r13/…  DTLS 1.3 record protection: suite x CID length x padding x S bit x L bit x data pattern |
//	       payload length x epoch x sequence number x inner content type
//	kd/…   key derivation: library function vs reference function on a grid of lengths x patterns
//
// Oracles per record input: (a) the library-sealed record opens under the reference keyed from the
// reference's own key derivation and yields the same content/type/padding/epoch/sequence number;
// (b) with the explicit nonce (or CBC IV) forced equal, the reference-sealed record is byte-identical
// (AEAD constructions; for CBC a counter only, RFC 5246 lets the sender choose the padding length);
// (c) the reference-sealed record opens under the library object initialised for the opposite side.
// Both writer roles are enumerated, so (a)+(c) observe the library's key-block partition in both
// directions.
//
// Data values (secrets, randoms, CID bytes, payload bytes) are outside the exhaustive alphabet: 4 fixed
// patterns. Structural dimensions are exhaustive over the sets listed in params.

// pattern is one choice of data values.
type pattern struct {
	name string
	// byteAt gives the i-th byte of stream number k (k distinguishes master secret, randoms, payload, …).
	byteAt func(k, i int) byte
}

var patterns = []pattern{
	{"zero", func(_, _ int) byte { return 0 }},
	{"rep", func(k, _ int) byte { return byte(k + 1) }}, // master 0x01.., client random 0x02.., server random 0x03.., …
	{"ff", func(_, _ int) byte { return 0xff }},
	{"count", func(k, i int) byte { return byte(64*k + i) }}, // counting bytes, a different start per stream
}

// stream numbers
const (
	stMaster = iota
	stClientRandom
	stServerRandom
	stPayload
	stCID
	stSecret
	stTranscript
	stPSK
	stLabelCtx
)

func (p pattern) bytes(k, n int) []byte {
	out := make([]byte, n)
	for i := range out {
		out[i] = p.byteAt(k, i)
	}

	return out
}

// dims is the structural grid of a tier.
type dims struct {
	payloadLens []int
	epochs12    []uint16
	epochs13    []uint16
	seqs        []uint64
	types12     []uint8
	types13     []uint8
	cidLens     []int
	pads        []int
	versions    [][2]byte
	extraPad    []int // extra CBC padding blocks in reference-sealed records
}

func tierDims(thorough bool) dims {
	d := dims{
		payloadLens: []int{0, 1, 15, 16, 17, 255, 1200},
		epochs12:    []uint16{1, 2, 0xffff},
		epochs13:    []uint16{1, 2, 3, 0xffff},
		seqs:        []uint64{0, 1, 1<<16 - 1, 1 << 16, 1 << 32, 1<<48 - 1},
		types12:     []uint8{21, 22, 23},
		types13:     []uint8{21, 22, 23, 26},
		cidLens:     []int{1, 4, 8},
		pads:        []int{0, 1, 7},
		versions:    [][2]byte{{0xfe, 0xfd}},
		extraPad:    []int{0, 1},
	}
	if thorough {
		d.payloadLens = []int{0, 1, 2, 3, 15, 16, 17, 31, 32, 33, 47, 48, 255, 256, 1200, 4096}
		d.epochs12 = []uint16{1, 2, 256, 0xffff}
		d.epochs13 = []uint16{1, 2, 3, 4, 256, 0xffff}
		d.seqs = []uint64{0, 1, 255, 1<<16 - 1, 1 << 16, 1 << 32, 1<<48 - 1}
		d.types12 = []uint8{21, 22, 23}
		d.types13 = []uint8{21, 22, 23, 26, 27}
		d.cidLens = []int{1, 2, 4, 8, 255}
		d.pads = []int{0, 1, 7, 255}
		d.versions = [][2]byte{{0xfe, 0xfd}, {0xfe, 0xff}}
		d.extraPad = []int{0, 1, 15}
	}

	return d
}

// failures collects violations inside one case, keeps the first (= smallest, loops run small-first)
// failing input per key and counts the rest.
type failures struct {
	first map[string]string
	count map[string]int
}

func (f *failures) add(key, format string, args ...any) {
	if f.first == nil {
		f.first, f.count = map[string]string{}, map[string]int{}
	}
	if _, ok := f.first[key]; !ok {
		f.first[key] = fmt.Sprintf(format, args...)
	}
	f.count[key]++
}

// finish fills Violation/Key. Several distinct causes in one case give a combined key, which no known
// finding matches, so an extra defect is never hidden behind a known one.
func (f *failures) finish(o *run.Outcome) {
	if len(f.first) == 0 {
		o.Class = "held"

		return
	}
	keys := make([]string, 0, len(f.first))
	for k := range f.first {
		keys = append(keys, k)
	}
	sort.Strings(keys)
	var sb strings.Builder
	for _, k := range keys {
		fmt.Fprintf(&sb, "[%s: %d failing inputs; first: %s] ", k, f.count[k], f.first[k])
	}
	o.Key = strings.Join(keys, "+")
	o.Violation = strings.TrimSpace(sb.String())
	o.Class = "VIOLATION:" + o.Key
}

// hx renders bytes lazily (only the first failure per key is ever formatted).
type hx []byte

func (b hx) String() string {
	if len(b) > 96 {
		return hex.EncodeToString(b[:96]) + fmt.Sprintf("…(%d bytes)", len(b))
	}

	return hex.EncodeToString(b)
}

// lazy defers building a description until it is formatted.
type lazy func() string

func (l lazy) String() string { return l() }

func suiteShort(s *refimpl.Suite) string { return strings.TrimPrefix(s.Name, "TLS_") }

func TestC10(t *testing.T) {
	env := run.GetEnv()
	d := tierDims(env.Thorough())
	var cases []run.Case
	cases = append(cases, kdCases(env.Thorough())...)
	cases = append(cases, rec12Cases(d)...)
	cases = append(cases, rec13Cases(d)...)

	seen := map[string]bool{}
	for _, c := range cases {
		if seen[c.ID] {
			t.Fatalf("duplicate case id %q", c.ID)
		}
		seen[c.ID] = true
	}
	names := make([]string, len(patterns))
	for i, p := range patterns {
		names[i] = p.name
	}
	run.KeepGC = true
	run.Main(t, "C10", cases, map[string]any{
		"suites_dtls12":    len(refimpl.Suites12()),
		"suites_dtls13":    len(refimpl.Suites13()),
		"header_layouts12": fmt.Sprintf("no CID; CID length %v x zero padding %v", d.cidLens, d.pads),
		"header_layouts13": fmt.Sprintf("CID length 0,%v x padding %v x S bit {8,16} x L bit {absent,present}", d.cidLens, d.pads),
		"payload_lengths":  fmt.Sprint(d.payloadLens),
		"epochs12":         fmt.Sprint(d.epochs12),
		"epochs13":         fmt.Sprint(d.epochs13),
		"sequence_numbers": fmt.Sprint(d.seqs),
		"content_types12":  fmt.Sprint(d.types12),
		"content_types13":  fmt.Sprint(d.types13),
		"record_versions":  fmt.Sprint(d.versions),
		"cbc_extra_pad":    fmt.Sprint(d.extraPad),
		"data_patterns":    strings.Join(names, ","),
		"roles":            "client-writes, server-writes",
		"not_reachable":    "DTLS 1.3 ExportKeyingMaterial (F8) and the key-update call site deriveNextApplicationTrafficSecret are not reachable without a connection; covered by the live-traffic checks",
	})
}
