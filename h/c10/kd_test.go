package c10

import (
	"bytes"
	"crypto/ecdh"
	"encoding/gob"
	"fmt"
	"strings"
	"testing"

	dtls "github.com/pion/dtls/v3"
	"github.com/pion/dtls/v3/internal/ciphersuite"
	dtlshandshake "github.com/pion/dtls/v3/internal/handshake"
	"github.com/pion/dtls/v3/internal/handshakecrypto"
	dtlsstate "github.com/pion/dtls/v3/internal/state"
	"github.com/pion/dtls/v3/pkg/crypto/elliptic"
	"github.com/pion/dtls/v3/pkg/crypto/keyschedule"
	"github.com/pion/dtls/v3/pkg/crypto/prf"
	"github.com/pion/dtls/v3/zzverif/refimpl"
	"github.com/pion/dtls/v3/zzverif/run"
)

var kdHashes = []refimpl.HashID{refimpl.SHA256, refimpl.SHA384}

// kdCase wraps a body that reports mismatches through cmp.
type kdCtx struct {
	o *run.Outcome
	f failures
}

// cmp records one oracle evaluation: library value vs reference value on the same input.
func (c *kdCtx) cmp(key string, lib []byte, libErr error, ref []byte, format string, args ...any) bool {
	c.o.Evals++
	c.o.Distinct++
	if libErr != nil {
		c.f.add(key, "%s: library returned error %v; reference=%s", fmt.Sprintf(format, args...), libErr, hx(ref))

		return false
	}
	if !bytes.Equal(lib, ref) {
		c.f.add(key, "%s: library=%s reference=%s", fmt.Sprintf(format, args...), hx(lib), hx(ref))

		return false
	}
	if c.o.Sample == nil && len(lib) >= 12 {
		c.o.Sample = map[string]any{"input": fmt.Sprintf(format, args...), "value": hx(lib).String()}
	}

	return true
}

func kdCase(id string, body func(c *kdCtx)) run.Case {
	return run.Case{ID: id, Run: func(*testing.T) run.Outcome {
		var o run.Outcome
		c := &kdCtx{o: &o}
		body(c)
		c.f.finish(&o)
		o.NonTrivial = o.Distinct > 0

		return o
	}}
}

func kdCases(thorough bool) []run.Case {
	var cases []run.Case
	secretLens := []int{0, 1, 16, 32, 48, 64, 65, 128, 129}
	seedLens := []int{0, 1, 13, 32, 64, 77}
	outLens := []int{0, 1, 12, 31, 32, 33, 47, 48, 49, 64, 95, 96, 97, 100, 255, 256}
	if thorough {
		secretLens, seedLens, outLens = nil, nil, nil
		for n := 0; n <= 130; n++ {
			secretLens = append(secretLens, n)
		}
		seedLens = []int{0, 1, 13, 31, 32, 33, 63, 64, 65, 77, 128}
		for n := 0; n <= 100; n++ {
			outLens = append(outLens, n)
		}
		outLens = append(outLens, 255, 256, 1000)
	}

	for _, h := range kdHashes {
		hf := prf.HashFunc(h.New())

		// P_hash
		cases = append(cases, kdCase("kd/phash/"+h.String(), func(c *kdCtx) {
			for _, p := range patterns {
				for _, sl := range secretLens {
					for _, dl := range seedLens {
						for _, n := range outLens {
							secret, seed := p.bytes(stSecret, sl), p.bytes(stLabelCtx, dl)
							lib, err := prf.PHash(secret, seed, n, hf)
							c.cmp("kd-phash-mismatch", lib, err, refimpl.PHash(h, secret, seed, n),
								"P_%s pattern=%s secret_len=%d seed_len=%d out_len=%d", h, p.name, sl, dl, n)
						}
					}
				}
			}
		}))

		// master secret, extended master secret
		cases = append(cases, kdCase("kd/master/"+h.String(), func(c *kdCtx) {
			for _, p := range patterns {
				cr, sr := p.bytes(stClientRandom, 32), p.bytes(stServerRandom, 32)
				for _, pl := range []int{1, 20, 32, 48, 66, 100} {
					pms := p.bytes(stSecret, pl)
					lib, err := prf.MasterSecret(pms, cr, sr, hf)
					c.cmp("kd-master-secret-mismatch", lib, err, refimpl.MasterSecret(h, pms, cr, sr), "master secret %s pattern=%s premaster_len=%d", h, p.name, pl)
					for _, shl := range []int{20, 32, 48} {
						sh := p.bytes(stTranscript, shl)
						lib, err = prf.ExtendedMasterSecret(pms, sh, hf)
						c.cmp("kd-extended-master-secret-mismatch", lib, err, refimpl.ExtendedMasterSecret(h, pms, sh),
							"extended master secret %s pattern=%s premaster_len=%d session_hash_len=%d", h, p.name, pl, shl)
					}
				}
			}
		}))

		// Finished verify_data
		cases = append(cases, kdCase("kd/verifydata/"+h.String(), func(c *kdCtx) {
			for _, p := range patterns {
				ms := p.bytes(stMaster, 48)
				for _, tl := range []int{0, 1, 63, 64, 65, 1000} {
					tr := p.bytes(stTranscript, tl)
					lib, err := prf.VerifyDataClient(ms, tr, hf)
					c.cmp("kd-verify-data-mismatch", lib, err, refimpl.VerifyData(h, ms, tr, true), "client verify_data %s pattern=%s transcript_len=%d", h, p.name, tl)
					lib, err = prf.VerifyDataServer(ms, tr, hf)
					c.cmp("kd-verify-data-mismatch", lib, err, refimpl.VerifyData(h, ms, tr, false), "server verify_data %s pattern=%s transcript_len=%d", h, p.name, tl)
				}
			}
		}))

		cases = append(cases, kdHKDFCase(h, thorough), kdUpdateCase(h))
	}

	for _, s := range refimpl.Suites12() {
		cases = append(cases, kdKeyBlockCase(s), kdExporter12Case(s))
	}
	cases = append(cases, kdPremasterCases()...)
	cases = append(cases, kdValueKeyMessageCase())
	for _, s := range refimpl.Suites13() {
		for _, p := range patterns {
			for _, isClient := range []bool{true, false} {
				cases = append(cases, kdSchedule13Case(s, p, isClient))
			}
		}
		cases = append(cases, kdHRRCase(s))
	}

	return cases
}

// --- key block ---------------------------------------------------------------------------------------

func kdKeyBlockCase(s *refimpl.Suite) run.Case {
	return kdCase("kd/keyblock/"+suiteShort(s), func(c *kdCtx) {
		hf := prf.HashFunc(s.Hash.New())
		ivLens := []int{s.FixedIVLen}
		if s.Kind == refimpl.KindCBC {
			ivLens = append(ivLens, 16) // the library also draws (unused) 16-byte IVs for CBC; they follow the keys, so nothing shifts
		}
		for _, p := range patterns {
			ms, cr, sr := p.bytes(stMaster, 48), p.bytes(stClientRandom, 32), p.bytes(stServerRandom, 32)
			for _, ivLen := range ivLens {
				lib, err := prf.GenerateEncryptionKeys(ms, cr, sr, s.MACLen, s.KeyLen, ivLen, hf)
				ref := refimpl.KeyBlockRaw(s.Hash, ms, cr, sr, s.MACLen, s.KeyLen, ivLen)
				if err != nil {
					c.cmp("kd-keyblock-mismatch", nil, err, nil, "key block %s pattern=%s", s.Name, p.name)

					continue
				}
				for _, x := range []struct {
					name     string
					lib, ref []byte
				}{
					{"client_write_MAC_key", lib.ClientMACKey, ref.ClientMAC}, {"server_write_MAC_key", lib.ServerMACKey, ref.ServerMAC},
					{"client_write_key", lib.ClientWriteKey, ref.ClientKey}, {"server_write_key", lib.ServerWriteKey, ref.ServerKey},
					{"client_write_IV", lib.ClientWriteIV, ref.ClientIV}, {"server_write_IV", lib.ServerWriteIV, ref.ServerIV},
				} {
					c.cmp("kd-keyblock-mismatch", x.lib, nil, x.ref, "key block %s pattern=%s iv_len=%d field=%s", s.Name, p.name, ivLen, x.name)
				}
			}
		}
	})
}

// --- RFC 5705 exporter through the public dtls.State ---------------------------------------------------

// wireState mirrors the gob layout of dtls.serializedState (fields are matched by name).
type wireState struct {
	Version       struct{ Major, Minor uint8 }
	LocalEpoch    uint16
	RemoteEpoch   uint16
	LocalRandom   [32]byte
	RemoteRandom  [32]byte
	CipherSuiteID uint16
	MasterSecret  []byte
	IsClient      bool
}

func kdExporter12Case(s *refimpl.Suite) run.Case {
	return kdCase("kd/exporter12/"+suiteShort(s), func(c *kdCtx) {
		for _, p := range patterns {
			ms, cr, sr := p.bytes(stMaster, 48), p.bytes(stClientRandom, 32), p.bytes(stServerRandom, 32)
			for _, isClient := range []bool{true, false} {
				w := wireState{LocalEpoch: 1, RemoteEpoch: 1, CipherSuiteID: s.ID, MasterSecret: ms, IsClient: isClient}
				w.Version.Major, w.Version.Minor = 0xfe, 0xfd
				local, remote := cr, sr
				if !isClient {
					local, remote = sr, cr
				}
				copy(w.LocalRandom[:], local)
				copy(w.RemoteRandom[:], remote)
				var buf bytes.Buffer
				if err := gob.NewEncoder(&buf).Encode(w); err != nil {
					c.f.add("harness-gob-error", "%v", err)

					return
				}
				var st dtls.State
				if err := st.UnmarshalBinary(buf.Bytes()); err != nil {
					c.cmp("kd-exporter12-mismatch", nil, err, nil, "State.UnmarshalBinary suite=%s pattern=%s is_client=%v", s.Name, p.name, isClient)

					continue
				}
				for _, label := range []string{"EXTRACTOR-dtls_srtp", "EXPORTER-c10", "x"} {
					for _, n := range []int{1, 16, 32, 33, 60, 100} {
						lib, err := st.ExportKeyingMaterial(label, nil, n)
						c.cmp("kd-exporter12-mismatch", lib, err, refimpl.Exporter12(s.Hash, ms, cr, sr, label, nil, false, n),
							"RFC 5705 exporter suite=%s pattern=%s is_client=%v label=%q length=%d", s.Name, p.name, isClient, label, n)
					}
				}
			}
		}
	})
}

// --- premaster secrets ---------------------------------------------------------------------------------

func nistScalar(b []byte) []byte {
	b = bytes.Clone(b)
	b[0] = 0
	b[len(b)-1] |= 1

	return b
}

func kdPremasterCases() []run.Case {
	cases := []run.Case{kdCase("kd/premaster/psk", func(c *kdCtx) {
		for _, p := range patterns {
			for _, n := range []int{0, 1, 2, 16, 32, 64, 255, 256, 1000} {
				psk := p.bytes(stPSK, n)
				c.cmp("kd-psk-premaster-mismatch", prf.PSKPreMasterSecret(psk), nil, refimpl.PSKPremaster(psk), "RFC 4279 premaster pattern=%s psk_len=%d", p.name, n)
			}
		}
	})}
	for _, cv := range []struct {
		name  string
		id    elliptic.Curve
		curve ecdh.Curve
		size  int
	}{
		{"x25519", elliptic.X25519, ecdh.X25519(), 32}, {"p256", elliptic.P256, ecdh.P256(), 32}, {"p384", elliptic.P384, ecdh.P384(), 48},
	} {
		cases = append(cases, kdCase("kd/premaster/ecdhe-psk/"+cv.name, func(c *kdCtx) {
			for _, p := range patterns {
				a, b := p.bytes(stSecret, cv.size), p.bytes(stMaster, cv.size)
				if cv.name != "x25519" {
					a, b = nistScalar(a), nistScalar(b)
				}
				ka, err := cv.curve.NewPrivateKey(a)
				if err != nil {
					c.f.add("harness-ecdh-key", "%s %s: %v", cv.name, p.name, err)

					continue
				}
				kb, err := cv.curve.NewPrivateKey(b)
				if err != nil {
					c.f.add("harness-ecdh-key", "%s %s: %v", cv.name, p.name, err)

					continue
				}
				z, err := ka.ECDH(kb.PublicKey())
				if err != nil {
					c.f.add("harness-ecdh-key", "%s %s: %v", cv.name, p.name, err)

					continue
				}
				lib, err := prf.PreMasterSecret(kb.PublicKey().Bytes(), a, cv.id)
				c.cmp("kd-ecdhe-premaster-mismatch", lib, err, z, "ECDHE premaster curve=%s pattern=%s", cv.name, p.name)
				for _, n := range []int{0, 1, 16, 32, 255} {
					psk := p.bytes(stPSK, n)
					// both ends must obtain the same value
					lib, err = prf.EcdhePSKPreMasterSecret(psk, kb.PublicKey().Bytes(), a, cv.id)
					c.cmp("kd-ecdhe-psk-premaster-mismatch", lib, err, refimpl.ECDHEPSKPremaster(z, psk), "RFC 5489 premaster curve=%s pattern=%s psk_len=%d side=a", cv.name, p.name, n)
					lib, err = prf.EcdhePSKPreMasterSecret(psk, ka.PublicKey().Bytes(), b, cv.id)
					c.cmp("kd-ecdhe-psk-premaster-mismatch", lib, err, refimpl.ECDHEPSKPremaster(z, psk), "RFC 5489 premaster curve=%s pattern=%s psk_len=%d side=b", cv.name, p.name, n)
				}
			}
		}))
	}

	return cases
}

func kdValueKeyMessageCase() run.Case {
	return kdCase("kd/valuekeymessage", func(c *kdCtx) {
		for _, p := range patterns {
			cr, sr := p.bytes(stClientRandom, 32), p.bytes(stServerRandom, 32)
			for _, curve := range []uint16{23, 24, 29, 0x11ec} {
				for _, n := range []int{1, 32, 65, 97, 133, 255} {
					pub := p.bytes(stSecret, n)
					ref, err := refimpl.SignedECDHParams(cr, sr, curve, pub)
					if err != nil {
						c.f.add("harness-ref-error", "%v", err)

						continue
					}
					c.cmp("kd-valuekeymessage-mismatch", handshakecrypto.ValueKeyMessage(cr, sr, pub, elliptic.Curve(curve)), nil, ref,
						"signed ServerECDHParams pattern=%s curve=%d point_len=%d", p.name, curve, n)
				}
			}
		}
	})
}

// --- DTLS 1.3: HKDF, labels -----------------------------------------------------------------------------

var labels13 = []string{
	"key", "iv", "sn", "finished", "derived", "c hs traffic", "s hs traffic", "c ap traffic", "s ap traffic",
	"exp master", "res master", "traffic upd", "exporter", "c e traffic", "ext binder", "res binder", "resumption",
	"x", strings.Repeat("L", 249),
}

func kdHKDFCase(h refimpl.HashID, thorough bool) run.Case {
	return kdCase("kd/hkdf/"+h.String(), func(c *kdCtx) {
		hf := h.New()
		ctxLens := []int{0, 1, 32, 48, 255}
		outLens := []int{1, 12, 16, 32, 48, 64, 255}
		if thorough {
			ctxLens = []int{0, 1, 2, 20, 31, 32, 33, 47, 48, 49, 64, 128, 254, 255}
			outLens = nil
			for n := 1; n <= 130; n++ {
				outLens = append(outLens, n)
			}
			outLens = append(outLens, 255, 256, 1000, 255*h.Size())
		}
		for _, p := range patterns {
			for _, sl := range []int{0, 1, h.Size(), 64, 200} {
				for _, il := range []int{0, 1, 32, 48, 64} {
					salt, ikm := p.bytes(stLabelCtx, sl), p.bytes(stSecret, il)
					lib, err := keyschedule.HkdfExtract(hf, salt, ikm)
					c.cmp("kd-hkdf-extract-mismatch", lib, err, refimpl.HKDFExtract(h, salt, ikm), "HKDF-Extract %s pattern=%s salt_len=%d ikm_len=%d", h, p.name, sl, il)
				}
			}
			lib, err := keyschedule.HkdfExtract(hf, nil, p.bytes(stSecret, h.Size()))
			c.cmp("kd-hkdf-extract-mismatch", lib, err, refimpl.HKDFExtract(h, nil, p.bytes(stSecret, h.Size())), "HKDF-Extract %s pattern=%s salt absent", h, p.name)

			secret := p.bytes(stSecret, h.Size())
			for _, label := range labels13 {
				for _, cl := range ctxLens {
					for _, n := range outLens {
						ctx := p.bytes(stLabelCtx, cl)
						lib, err := keyschedule.HkdfExpandLabel(hf, secret, label, ctx, n)
						c.cmp("kd-expand-label-mismatch", lib, err, refimpl.ExpandLabel(h, secret, label, ctx, n),
							"HKDF-Expand-Label %s pattern=%s label=%q context_len=%d length=%d", h, p.name, short(label), cl, n)
					}
				}
			}
			for _, label := range []string{"derived", "c hs traffic", "exp master"} {
				for _, ml := range []int{0, 1, 100, 1000} {
					msgs := p.bytes(stTranscript, ml)
					running := hf()
					running.Write(msgs)
					lib, err := keyschedule.DeriveSecret(hf, secret, label, running)
					c.cmp("kd-derive-secret-mismatch", lib, err, refimpl.DeriveSecret(h, secret, label, msgs), "Derive-Secret %s pattern=%s label=%q messages_len=%d", h, p.name, label, ml)
				}
				lib, err := keyschedule.DeriveSecret(hf, secret, label, nil)
				c.cmp("kd-derive-secret-mismatch", lib, err, refimpl.DeriveSecret(h, secret, label, nil), "Derive-Secret %s pattern=%s label=%q messages absent", h, p.name, label)
			}
		}
	})
}

func short(s string) string {
	if len(s) > 16 {
		return fmt.Sprintf("%s…(%d)", s[:8], len(s))
	}

	return s
}

// kdUpdateCase: the "traffic upd" step. The library's own call site (postHandshake.nextTrafficGeneration ->
// deriveNextApplicationTrafficSecret) needs a live connection; here the exported expand-label function is
// driven with the RFC 8446 §7.2 inputs over three generations. The call site is covered by the
// live-traffic key-update check (C20).
func kdUpdateCase(h refimpl.HashID) run.Case {
	return kdCase("kd/update-secret/"+h.String(), func(c *kdCtx) {
		for _, p := range patterns {
			lib, ref := p.bytes(stSecret, h.Size()), p.bytes(stSecret, h.Size())
			for gen := 1; gen <= 3; gen++ {
				var err error
				lib, err = keyschedule.HkdfExpandLabel(h.New(), lib, "traffic upd", nil, h.Size())
				ref = refimpl.NextTrafficSecret(h, ref)
				if !c.cmp("kd-update-secret-mismatch", lib, err, ref, "application_traffic_secret_%d %s pattern=%s", gen, h, p.name) {
					break
				}
			}
		}
	})
}

// --- DTLS 1.3: the schedule as the handshake code drives it ------------------------------------------------

type libTranscript struct {
	tr    *dtlshandshake.Transcript
	cs    ciphersuite.CipherSuite
	seq   [2]uint16
	canon []byte // what the reference hashes: Canonical13 of every message
}

// add appends one handshake message (DTLS framing) sent by the given side. Finished-typed messages are
// used as carriers because their body is opaque to the library's parser; the transcript is over bytes.
func (lt *libTranscript) add(fromClient bool, typ uint8, body []byte) error {
	i := 0
	if fromClient {
		i = 1
	}
	raw := refimpl.HandshakeMessage12(typ, lt.seq[i], body)
	lt.seq[i]++
	cn, err := refimpl.Canonical13(raw)
	if err != nil {
		return err
	}
	lt.canon = append(lt.canon, cn...)

	return lt.tr.AppendVerifiedInbound(fromClient, lt.cs, raw)
}

func kdSchedule13Case(s *refimpl.Suite, p pattern, isClient bool) run.Case {
	role := "server"
	if isClient {
		role = "client"
	}

	return kdCase(fmt.Sprintf("kd/schedule13/%s/%s/%s", suiteShort(s), p.name, role), func(c *kdCtx) {
		h := s.Hash
		for _, zl := range []int{32, 48, 64, 66} { // X25519/P-256, P-384, X25519MLKEM768, P-521 shared-secret lengths
			for _, bodyLens := range [][4]int{{0, 0, 0, 0}, {1, 100, 32, 32}, {300, 1200, 700, 48}} {
				in := fmt.Sprintf("suite=%s pattern=%s side=%s ecdhe_len=%d message_body_lens=%v", s.Name, p.name, role, zl, bodyLens)
				cs := ciphersuite.ForID(ciphersuite.ID(s.ID), nil)
				z := p.bytes(stSecret, zl)
				st := &dtlsstate.State13{Common: &dtlsstate.Common{IsClient: isClient, CipherSuite: cs}, KeyAgreementSecret: z}
				lt := &libTranscript{tr: dtlshandshake.NewTranscript(), cs: cs}
				ref := refimpl.NewSchedule13(h, nil, z)

				// ClientHello .. ServerHello
				if err := firstErr(lt.add(true, 20, p.bytes(stTranscript, bodyLens[0])), lt.add(false, 20, p.bytes(stLabelCtx, bodyLens[1]))); err != nil {
					c.f.add("harness-transcript", "%s: %v", in, err)

					return
				}
				err := dtlshandshake.DeriveAndStoreHandshakeTrafficSecrets(st, lt.tr)
				ref.SetHelloHash(refimpl.HashOf(h, lt.canon))
				ks := &st.KeySchedule
				c.cmp("kd13-client-handshake-traffic-secret-mismatch", ks.HandshakeTraffic.Client, err, ref.ClientHandshakeTraffic, "client_handshake_traffic_secret %s", in)
				c.cmp("kd13-server-handshake-traffic-secret-mismatch", ks.HandshakeTraffic.Server, err, ref.ServerHandshakeTraffic, "server_handshake_traffic_secret %s", in)
				c.cmp("kd13-master-secret-mismatch", ks.MasterSecret, err, ref.MasterSecret, "Master Secret %s", in)
				if err != nil {
					return
				}
				if err = dtlshandshake.InitHandshakeRecordProtection(st); err != nil {
					c.f.add("kd13-record-protection-wiring", "%s: InitHandshakeRecordProtection: %v", in, err)
				} else {
					c.wiring(s, st, 2, isClient, ref.ClientHandshakeTraffic, ref.ServerHandshakeTraffic, in)
				}

				// EncryptedExtensions .. CertificateVerify, then the Finished computations
				if err = lt.add(false, 20, p.bytes(stPayload, bodyLens[2])); err != nil {
					c.f.add("harness-transcript", "%s: %v", in, err)

					return
				}
				th := refimpl.HashOf(h, lt.canon)
				for _, cl := range []bool{true, false} {
					lib, err := dtlshandshake.CertificateVerifyInputFromTranscript(cl, lt.tr)
					c.cmp("kd13-certificate-verify-input-mismatch", lib, err, refimpl.CertificateVerifyInput(cl, th), "CertificateVerify input signer_is_client=%v %s", cl, in)
				}
				for _, base := range [][]byte{ks.HandshakeTraffic.Client, ks.HandshakeTraffic.Server} {
					lib, err := dtlshandshake.FinishedVerifyDataFromTranscript(h.New(), base, lt.tr)
					c.cmp("kd13-finished-verify-data-mismatch", lib, err, refimpl.FinishedVerifyData13(h, base, th), "Finished verify_data %s", in)
				}

				// server Finished
				if err = lt.add(false, 20, p.bytes(stMaster, bodyLens[3])); err != nil {
					c.f.add("harness-transcript", "%s: %v", in, err)

					return
				}
				err = dtlshandshake.DeriveAndStoreApplicationTrafficSecrets(st, lt.tr)
				ref.SetServerFinishedHash(refimpl.HashOf(h, lt.canon))
				c.cmp("kd13-client-application-traffic-secret-mismatch", ks.ClientApplicationTrafficSecret0, err, ref.ClientAppTraffic0, "client_application_traffic_secret_0 %s", in)
				c.cmp("kd13-server-application-traffic-secret-mismatch", ks.ServerApplicationTrafficSecret0, err, ref.ServerAppTraffic0, "server_application_traffic_secret_0 %s", in)
				c.cmp("kd13-exporter-master-secret-mismatch", ks.ExporterMasterSecret, err, ref.ExporterMaster, "exporter_master_secret %s", in)
				if err == nil {
					if err = dtlshandshake.InitApplicationRecordProtection(st); err != nil {
						c.f.add("kd13-record-protection-wiring", "%s: InitApplicationRecordProtection: %v", in, err)
					} else {
						c.wiring(s, st, 3, isClient, ref.ClientAppTraffic0, ref.ServerAppTraffic0, in)
					}
				}

				// client Finished
				if err = lt.add(true, 20, p.bytes(stPSK, bodyLens[3])); err != nil {
					c.f.add("harness-transcript", "%s: %v", in, err)

					return
				}
				err = dtlshandshake.DeriveAndStoreResumptionMasterSecret(st, lt.tr)
				ref.SetClientFinishedHash(refimpl.HashOf(h, lt.canon))
				c.cmp("kd13-resumption-master-secret-mismatch", ks.ResumptionMasterSecret, err, ref.ResumptionMaster, "resumption_master_secret %s", in)
				c.cmp("kd13-transcript-bytes-mismatch", lt.tr.Bytes(), nil, lt.canon, "transcript bytes %s", in)
			}
		}
	})
}

// wiring checks which traffic secret the library installed for writing and reading at an epoch: the
// record it writes must open under the reference keyed with this side's secret, and a reference record
// under the peer's secret must open under the library's read state.
func (c *kdCtx) wiring(s *refimpl.Suite, st *dtlsstate.State13, epoch uint16, isClient bool, clientSecret, serverSecret []byte, in string) {
	mine, peer := serverSecret, clientSecret
	if isClient {
		mine, peer = clientSecret, serverSecret
	}
	c.o.Evals += 2
	w, ok := st.TrafficKeys.Write(epoch)
	if !ok || w.Protection == nil {
		c.f.add("kd13-record-protection-wiring", "%s: no write protection at epoch %d", in, epoch)

		return
	}
	r13 := refimpl.Record13{Type: 22, Epoch: epoch, Seq: 5, Seq16: true, WithLength: true, Payload: []byte("wiring")}
	rec, err := libSeal13(w.Protection, r13)
	if err != nil {
		c.f.add("kd13-record-protection-wiring", "%s: epoch %d seal: %v", in, epoch, err)

		return
	}
	if got, _, err := refimpl.Open13(s, refimpl.TrafficKeys13(s, mine), rec, 0, 5); err != nil || string(got.Payload) != "wiring" {
		c.f.add("kd13-record-protection-wiring", "%s: epoch %d: the record written by this side does not open under this side's RFC traffic secret (%v)", in, epoch, err)
	}
	r, ok := st.TrafficKeys.Read(epoch)
	if !ok || r.Protection == nil {
		c.f.add("kd13-record-protection-wiring", "%s: no read protection at epoch %d", in, epoch)

		return
	}
	refRec, err := refimpl.Seal13(s, refimpl.TrafficKeys13(s, peer), r13)
	if err != nil {
		c.f.add("harness-ref-seal-error", "%v", err)

		return
	}
	if ip, _, err := libOpen13(r.Protection, refRec, 0, 5); err != nil || string(ip.Content) != "wiring" {
		c.f.add("kd13-record-protection-wiring", "%s: epoch %d: a record under the peer's RFC traffic secret does not open under this side's read state (%v)", in, epoch, err)
	}
}

func firstErr(errs ...error) error {
	for _, e := range errs {
		if e != nil {
			return e
		}
	}

	return nil
}

// kdHRRCase: after a HelloRetryRequest the transcript starts with the synthetic message_hash message
// (RFC 8446 §4.4.1); the handshake traffic secrets must be derived over that transcript.
func kdHRRCase(s *refimpl.Suite) run.Case {
	return kdCase("kd/hrr-transcript/"+suiteShort(s), func(c *kdCtx) {
		h := s.Hash
		for _, p := range patterns {
			in := fmt.Sprintf("suite=%s pattern=%s", s.Name, p.name)
			cs := ciphersuite.ForID(ciphersuite.ID(s.ID), nil)
			tr := dtlshandshake.NewTranscript()
			// ClientHello1: legacy_version, random, empty session id, empty cookie, one suite, null compression, one empty extension (the library insists on an extension block; a supported_versions extension would make it demand the full DTLS 1.3 set, which is irrelevant to the transcript bytes)
			ch1body := cat([]byte{0xfe, 0xfd}, p.bytes(stClientRandom, 32), []byte{0, 0, 0, 2, byte(s.ID >> 8), byte(s.ID), 1, 0, 0, 4, 0x00, 0x17, 0, 0})
			ch1 := refimpl.HandshakeMessage12(1, 0, ch1body)
			// HelloRetryRequest: ServerHello with the special random, supported_versions = DTLS 1.3
			hrrRandom := []byte{
				0xCF, 0x21, 0xAD, 0x74, 0xE5, 0x9A, 0x61, 0x11, 0xBE, 0x1D, 0x8C, 0x02, 0x1E, 0x65, 0xB8, 0x91,
				0xC2, 0xA2, 0x11, 0x16, 0x7A, 0xBB, 0x8C, 0x5E, 0x07, 0x9E, 0x09, 0xE2, 0xC8, 0xA8, 0x33, 0x9C,
			}
			hrrBody := cat([]byte{0xfe, 0xfd}, hrrRandom, []byte{0, byte(s.ID >> 8), byte(s.ID), 0, 0, 6, 0x00, 0x2b, 0, 2, 0xfe, 0xfc})
			hrr := refimpl.HandshakeMessage12(2, 0, hrrBody)
			if err := firstErr(tr.AppendVerifiedInbound(true, cs, ch1), tr.AppendVerifiedInbound(false, cs, hrr)); err != nil {
				c.o.Counters = map[string]int{"hrr_messages_not_parsed_by_library": 1}
				c.o.Sample = map[string]any{"note": "library parser rejected the synthetic ClientHello/HelloRetryRequest: " + err.Error()}

				return
			}
			// ClientHello2, ServerHello carried as opaque messages
			ch2 := refimpl.HandshakeMessage12(20, 1, p.bytes(stTranscript, 80))
			sh := refimpl.HandshakeMessage12(20, 1, p.bytes(stLabelCtx, 90))
			if err := firstErr(tr.AppendVerifiedInbound(true, cs, ch2), tr.AppendVerifiedInbound(false, cs, sh)); err != nil {
				c.f.add("harness-transcript", "%s: %v", in, err)

				return
			}
			canon := func(m []byte) []byte { b, _ := refimpl.Canonical13(m); return b }
			want := cat(refimpl.MessageHash13(h, canon(ch1)), canon(hrr), canon(ch2), canon(sh))
			c.cmp("kd13-hrr-transcript-mismatch", tr.Bytes(), nil, want, "transcript after HelloRetryRequest %s", in)
			z := p.bytes(stSecret, 32)
			st := &dtlsstate.State13{Common: &dtlsstate.Common{IsClient: true, CipherSuite: cs}, KeyAgreementSecret: z}
			err := dtlshandshake.DeriveAndStoreHandshakeTrafficSecrets(st, tr)
			ref := refimpl.NewSchedule13(h, nil, z)
			ref.SetHelloHash(refimpl.HashOf(h, want))
			c.cmp("kd13-client-handshake-traffic-secret-mismatch", st.KeySchedule.HandshakeTraffic.Client, err, ref.ClientHandshakeTraffic, "client_handshake_traffic_secret after HRR %s", in)
			c.cmp("kd13-server-handshake-traffic-secret-mismatch", st.KeySchedule.HandshakeTraffic.Server, err, ref.ServerHandshakeTraffic, "server_handshake_traffic_secret after HRR %s", in)
		}
	})
}

func cat(parts ...[]byte) []byte {
	var out []byte
	for _, p := range parts {
		out = append(out, p...)
	}

	return out
}
