package c10

import (
	"bytes"
	"crypto/hmac"
	"errors"
	"fmt"
	"testing"

	"github.com/pion/dtls/v3/internal/ciphersuite"
	"github.com/pion/dtls/v3/pkg/protocol"
	"github.com/pion/dtls/v3/pkg/protocol/recordlayer"
	"github.com/pion/dtls/v3/zzverif/refimpl"
	"github.com/pion/dtls/v3/zzverif/run"
)

// layout12 is a DTLS 1.2 header layout: no CID, or a CID of cidLen bytes with pad zero octets of
// inner-plaintext padding.
type layout12 struct {
	cidLen, pad int
}

func (l layout12) String() string {
	if l.cidLen == 0 {
		return "nocid"
	}

	return fmt.Sprintf("cid%d/pad%d", l.cidLen, l.pad)
}

func layouts12(d dims) []layout12 {
	out := []layout12{{}}
	for _, c := range d.cidLens {
		for _, p := range d.pads {
			out = append(out, layout12{c, p})
		}
	}

	return out
}

func rec12Cases(d dims) []run.Case {
	var cases []run.Case
	for _, s := range refimpl.Suites12() {
		for _, l := range layouts12(d) {
			for _, p := range patterns {
				for _, clientWrites := range []bool{true, false} {
					role := "server-writes"
					if clientWrites {
						role = "client-writes"
					}
					id := fmt.Sprintf("r12/%s/%s/%s/%s", suiteShort(s), l, p.name, role)
					cases = append(cases, run.Case{ID: id, Run: func(*testing.T) run.Outcome {
						return rec12Run(d, s, l, p, clientWrites)
					}})
				}
			}
		}
	}

	return cases
}

// libSuite12 returns the library's suite object initialised for one side.
func libSuite12(s *refimpl.Suite, p pattern, isClient bool) (ciphersuite.CipherSuite, error) {
	cs := ciphersuite.ForID(ciphersuite.ID(s.ID), nil)
	if cs == nil {
		return nil, fmt.Errorf("library has no suite %#04x", s.ID)
	}
	err := cs.Init(p.bytes(stMaster, 48), p.bytes(stClientRandom, 32), p.bytes(stServerRandom, 32), isClient)

	return cs, err
}

// libSeal12 protects a record the way conn.go does: marshal header (+ inner plaintext for CID records)
// and call CipherSuite.Encrypt.
func libSeal12(cs ciphersuite.CipherSuite, r refimpl.Record12) ([]byte, error) {
	h := recordlayer.Header{
		ContentType: protocol.ContentType(r.Type), Version: protocol.Version{Major: r.Version[0], Minor: r.Version[1]},
		Epoch: r.Epoch, SequenceNumber: r.Seq,
	}
	body := r.Payload
	if r.WrapCID {
		inner := &recordlayer.InnerPlaintext{Content: r.Payload, RealType: protocol.ContentType(r.Type), Zeros: uint(r.Pad)}
		raw, err := inner.Marshal()
		if err != nil {
			return nil, err
		}
		body = raw
		h.ContentType = protocol.ContentTypeConnectionID
		h.ConnectionID = r.CID
	}
	h.ContentLen = uint16(len(body))
	raw, err := h.Marshal()
	if err != nil {
		return nil, err
	}
	raw = append(raw, body...)

	return cs.Encrypt(&recordlayer.RecordLayer{Header: h}, raw[:len(raw):len(raw)])
}

// libOpen12 opens a record the way conn.go does and returns content, type and padding.
func libOpen12(cs ciphersuite.CipherSuite, record []byte, cidLen int) (content []byte, typ uint8, pad int, err error) {
	in := bytes.Clone(record) // Decrypt works in place
	h := recordlayer.Header{}
	if in[0] == refimpl.ContentTypeCID {
		h.ConnectionID = make([]byte, cidLen)
	}
	out, err := cs.Decrypt(h, in)
	if err != nil {
		return nil, 0, 0, err
	}
	var hh recordlayer.Header
	if in[0] == refimpl.ContentTypeCID {
		hh.ConnectionID = make([]byte, cidLen)
	}
	if err = hh.Unmarshal(out); err != nil {
		return nil, 0, 0, err
	}
	body := out[hh.Size():]
	if hh.ContentType != protocol.ContentTypeConnectionID {
		return body, uint8(hh.ContentType), 0, nil
	}
	var ip recordlayer.InnerPlaintext
	if err = ip.Unmarshal(body); err != nil {
		return nil, 0, 0, err
	}

	return ip.Content, uint8(ip.RealType), int(ip.Zeros), nil
}

// --- F9 diagnosis -----------------------------------------------------------------------------------
// The known defect F9: CBC.hmacCID MACs the RFC 9146 §5.1 input (which already ends with the inner
// plaintext) and then the inner plaintext once more. To attribute a CBC+CID interop failure to F9 and to
// nothing else, the check rebuilds exactly that deviation on top of the reference primitives and
// requires the library to agree with the deviant construction byte for byte.

func f9MAC(s *refimpl.Suite, k refimpl.Keys12, r refimpl.Record12, inner []byte) []byte {
	m := hmac.New(s.MAC.New(), k.MAC)
	m.Write(refimpl.AAD12CID(r.Version, r.Epoch, r.Seq, r.CID, len(inner)))
	m.Write(inner)
	m.Write(inner) // the deviation

	return m.Sum(nil)
}

func f9Seal(s *refimpl.Suite, k refimpl.Keys12, r refimpl.Record12, iv []byte) ([]byte, error) {
	inner := refimpl.InnerPlaintext12(r.Payload, r.Type, r.Pad)
	data := append(bytes.Clone(inner), f9MAC(s, k, r, inner)...)
	padLen := 15 - len(data)%16 + 16*r.ExtraPadBlocks
	for i := 0; i <= padLen; i++ {
		data = append(data, byte(padLen))
	}
	ct, err := refimpl.CBCEncryptRaw(k.Key, iv, data)
	if err != nil {
		return nil, err
	}
	body := append(bytes.Clone(iv), ct...)

	return append(refimpl.Header12(refimpl.ContentTypeCID, r.Version, r.Epoch, r.Seq, r.CID, len(body)), body...), nil
}

// libRecHex renders a library-sealed record; the CBC IV is drawn from crypto/rand by the library, so
// only the header is shown for CBC (violation texts must be reproducible).
func libRecHex(s *refimpl.Suite, rec []byte, cidLen int) lazy {
	return func() string {
		if s.Kind == refimpl.KindCBC && len(rec) >= 13+cidLen {
			return fmt.Sprintf("%s|<random IV + %d bytes>", hx(rec[:13+cidLen]), len(rec)-13-cidLen-16)
		}

		return hx(rec).String()
	}
}

const keyF9 = "F9-cbc-cid-mac-double-plaintext"

func rec12Run(d dims, s *refimpl.Suite, l layout12, p pattern, clientWrites bool) (o run.Outcome) {
	var f failures
	o.Counters = map[string]int{}
	defer func() { f.finish(&o) }()

	libW, err := libSuite12(s, p, clientWrites)
	if err != nil {
		f.add("lib-init-failed", "Init(writer): %v", err)

		return o
	}
	libR, err := libSuite12(s, p, !clientWrites)
	if err != nil {
		f.add("lib-init-failed", "Init(reader): %v", err)

		return o
	}
	kb := refimpl.KeyBlockFor(s, p.bytes(stMaster, 48), p.bytes(stClientRandom, 32), p.bytes(stServerRandom, 32))
	k := kb.Writer(clientWrites)
	wrap := l.cidLen > 0
	cid := p.bytes(stCID, l.cidLen)
	tag := s.Kind.String()
	if wrap {
		tag += "-cid"
	}

	for _, n := range d.payloadLens {
		payload := p.bytes(stPayload, n)
		for _, ver := range d.versions {
			for _, epoch := range d.epochs12 {
				for _, seq := range d.seqs {
					for _, typ := range d.types12 {
						r := refimpl.Record12{
							Type: typ, Version: ver, Epoch: epoch, Seq: seq, WrapCID: wrap, CID: cid, Pad: l.pad, Payload: payload,
						}
						desc := lazy(func() string {
							return fmt.Sprintf("suite=%s layout=%s pattern=%s writer-is-client=%v payload_len=%d version=%x epoch=%d seq=%d type=%d",
								s.Name, l, p.name, clientWrites, n, ver, epoch, seq, typ)
						})
						o.Distinct++

						// (a) library seals, reference opens
						rec, err := libSeal12(libW, r)
						if err != nil {
							f.add("r12-lib-seal-error/"+tag, "%s: library Encrypt: %v", desc, err)

							continue
						}
						if o.Sample == nil && n == 1 {
							o.Sample = map[string]any{"case": desc.String(), "library_record": libRecHex(s, rec, l.cidLen).String()}
						}
						o.Evals++
						got, err := refimpl.Open12(s, k, rec, l.cidLen)
						switch {
						case err == nil:
							if !bytes.Equal(got.Payload, payload) || got.Type != typ || got.Pad != l.pad || got.Epoch != epoch ||
								got.Seq != seq || got.Version != ver || !bytes.Equal(got.CID, cid) && wrap {
								f.add("r12-lib-sealed-opens-to-different-plaintext/"+tag, "%s: reference opened the library's record to type=%d pad=%d epoch=%d seq=%d payload=%s",
									desc, got.Type, got.Pad, got.Epoch, got.Seq, hx(got.Payload))
							}
						case s.Kind == refimpl.KindCBC && wrap && errors.Is(err, refimpl.ErrOpen):
							// F9 candidate: the record must be exactly the deviant construction under the library's own IV.
							dev, derr := f9Seal(s, k, r, rec[13+l.cidLen:13+l.cidLen+16])
							if derr == nil && bytes.Equal(dev, rec) {
								f.add(keyF9, "%s: library-sealed CBC+CID record fails the RFC 9146 §5.1 MAC under the reference; it equals byte for byte the construction whose MAC covers the inner plaintext twice; record=%s",
									desc, libRecHex(s, rec, l.cidLen))
							} else {
								f.add("r12-cbc-cid-lib-sealed-not-explained-by-F9", "%s: reference cannot open the library's record (%v) and it is not the F9 construction either; record=%s", desc, err, libRecHex(s, rec, l.cidLen))
							}
						default:
							f.add("r12-lib-sealed-not-opened-by-ref/"+tag, "%s: reference cannot open the library's record: %v; record=%s", desc, err, libRecHex(s, rec, l.cidLen))
						}

						// (b) same explicit nonce / IV => same bytes
						forced := r
						if s.ExplicitLen > 0 && len(rec) >= 13+l.cidLen+s.ExplicitLen {
							forced.Explicit = rec[13+l.cidLen : 13+l.cidLen+s.ExplicitLen]
						}
						ref, err := refimpl.Seal12(s, k, forced)
						if err != nil {
							f.add("harness-ref-seal-error", "%s: %v", desc, err)

							continue
						}
						if s.Kind == refimpl.KindCBC {
							if bytes.Equal(ref, rec) {
								o.Counters["cbc_bytes_equal_given_iv"]++
							} else {
								o.Counters["cbc_bytes_differ_given_iv"]++
							}
						} else {
							o.Evals++
							if !bytes.Equal(ref, rec) {
								f.add("r12-bytes-differ/"+tag, "%s: with the same explicit nonce the records differ: library=%s reference=%s", desc, hx(rec), hx(ref))
							}
						}

						// (c) reference seals, library (opposite side) opens
						variants := []refimpl.Record12{r}
						switch s.Kind {
						case refimpl.KindGCM, refimpl.KindCCM:
							// the sender may choose any explicit nonce (RFC 5288 §3): one that is not epoch||seq
							v := r
							v.Explicit = []byte{0xa5, 0x5a, 0x01, 0x02, 0x03, 0x04, 0x05, byte(seq)}
							variants = append(variants, v)
						case refimpl.KindCBC:
							variants = variants[:0]
							for _, x := range d.extraPad {
								v := r
								v.ExtraPadBlocks = x
								if 15+16*x <= 255 {
									variants = append(variants, v)
								}
							}
						}
						for vi, v := range variants {
							refRec, err := refimpl.Seal12(s, k, v)
							if err != nil {
								f.add("harness-ref-seal-error", "%s variant %d: %v", desc, vi, err)

								continue
							}
							o.Evals++
							content, gtyp, gpad, err := libOpen12(libR, refRec, l.cidLen)
							switch {
							case err == nil:
								if !bytes.Equal(content, payload) || gtyp != typ || gpad != l.pad {
									f.add("r12-ref-sealed-opens-to-different-plaintext/"+tag, "%s variant %d: library opened the reference's record to type=%d pad=%d payload=%s",
										desc, vi, gtyp, gpad, hx(content))
								}
							case s.Kind == refimpl.KindCBC && wrap:
								// F9 candidate: the library must accept the deviant record instead.
								dev, derr := f9Seal(s, k, v, refRec[13+l.cidLen:13+l.cidLen+16])
								var c2 []byte
								var t2 uint8
								var p2 int
								if derr == nil {
									c2, t2, p2, derr = libOpen12(libR, dev, l.cidLen)
								}
								if derr == nil && bytes.Equal(c2, payload) && t2 == typ && p2 == l.pad {
									f.add(keyF9, "%s extra_pad_blocks=%d: library rejects (%v) a CBC+CID record carrying the RFC 9146 §5.1 MAC and accepts the same record when the MAC covers the inner plaintext twice; record=%s",
										desc, v.ExtraPadBlocks, err, hx(refRec))
								} else {
									f.add("r12-cbc-cid-ref-sealed-not-explained-by-F9", "%s: library rejects the reference's record (%v) and the F9 construction does not explain it (%v); record=%s",
										desc, err, derr, hx(refRec))
								}
							default:
								f.add("r12-ref-sealed-not-opened-by-lib/"+tag, "%s variant %d: library cannot open the reference's record: %v; record=%s", desc, vi, err, hx(refRec))
							}
						}
					}
				}
			}
		}
	}
	o.NonTrivial = o.Distinct > 0

	return o
}
