package c10

import (
	"bytes"
	"fmt"
	"testing"

	"github.com/pion/dtls/v3/internal/ciphersuite"
	"github.com/pion/dtls/v3/pkg/protocol"
	"github.com/pion/dtls/v3/pkg/protocol/recordlayer"
	"github.com/pion/dtls/v3/zzverif/refimpl"
	"github.com/pion/dtls/v3/zzverif/run"
)

// layout13 is a DTLS 1.3 unified-header layout plus inner-plaintext padding.
type layout13 struct {
	cidLen, pad       int
	seq16, withLength bool
}

func (l layout13) String() string {
	s, ln := 8, 0
	if l.seq16 {
		s = 16
	}
	if l.withLength {
		ln = 1
	}

	return fmt.Sprintf("cid%d/pad%d/s%d/l%d", l.cidLen, l.pad, s, ln)
}

// libCanSeal reports whether the library's sealer can produce this layout (it always writes a 16-bit
// sequence number and a length field and never pads).
func (l layout13) libCanSeal() bool { return l.seq16 && l.withLength && l.pad == 0 }

func layouts13(d dims) []layout13 {
	var out []layout13
	for _, c := range append([]int{0}, d.cidLens...) {
		for _, p := range d.pads {
			for _, s16 := range []bool{false, true} {
				for _, wl := range []bool{false, true} {
					out = append(out, layout13{c, p, s16, wl})
				}
			}
		}
	}

	return out
}

func rec13Cases(d dims) []run.Case {
	var cases []run.Case
	for _, s := range refimpl.Suites13() {
		for _, l := range layouts13(d) {
			for _, p := range patterns {
				id := fmt.Sprintf("r13/%s/%s/%s", suiteShort(s), l, p.name)
				cases = append(cases, run.Case{ID: id, Run: func(*testing.T) run.Outcome { return rec13Run(d, s, l, p) }})
			}
		}
	}

	return cases
}

func libProtection13(s *refimpl.Suite, secret []byte) (ciphersuite.RecordProtection13, error) {
	cs, ok := ciphersuite.ForID(ciphersuite.ID(s.ID), nil).(ciphersuite.CipherSuiteTLS13)
	if !ok {
		return nil, fmt.Errorf("library has no DTLS 1.3 suite %#04x", s.ID)
	}

	return cs.NewRecordProtection(secret)
}

// libSeal13 seals the way conn.sealRecordContent does.
func libSeal13(prot ciphersuite.RecordProtection13, r refimpl.Record13) ([]byte, error) {
	h := recordlayer.UnifiedHeader{
		EpochLow: uint8(r.Epoch & 3), SequenceNumber: uint16(r.Seq & 0xffff), SeqBit: true, LengthBit: true,
	}
	if len(r.CID) > 0 {
		h.ConnectionID = bytes.Clone(r.CID)
	}
	ct, err := prot.Seal(h, r.Seq, protocol.ContentType(r.Type), r.Payload)
	if err != nil {
		return nil, err
	}

	return ct.Marshal()
}

// libOpen13 parses and opens the way conn.openCiphertextWithGeneration does; the full sequence number is
// supplied by the caller (the reconstruction from the receive window is connection state, not wire format).
func libOpen13(prot ciphersuite.RecordProtection13, data []byte, cidLen int, seq uint64) (recordlayer.InnerPlaintext, uint16, error) {
	var rec recordlayer.CiphertextRecord13
	rec.Header.ConnectionID = make([]byte, cidLen)
	if err := rec.Unmarshal(bytes.Clone(data)); err != nil {
		return recordlayer.InnerPlaintext{}, 0, fmt.Errorf("CiphertextRecord13.Unmarshal: %w", err)
	}
	clear, err := prot.UnmaskSequenceNumber(rec.Header, rec.EncryptedRecord)
	if err != nil {
		return recordlayer.InnerPlaintext{}, 0, fmt.Errorf("UnmaskSequenceNumber: %w", err)
	}
	ip, err := prot.Open(rec.Header, seq, rec.EncryptedRecord)

	return ip, clear.SequenceNumber, err
}

func rec13Run(d dims, s *refimpl.Suite, l layout13, p pattern) (o run.Outcome) {
	var f failures
	o.Counters = map[string]int{}
	defer func() { f.finish(&o) }()

	secret := p.bytes(stSecret, s.Hash.Size())
	prot, err := libProtection13(s, secret)
	if err != nil {
		f.add("lib-init-failed", "NewRecordProtection: %v", err)

		return o
	}
	k := refimpl.TrafficKeys13(s, secret)
	cid := p.bytes(stCID, l.cidLen)
	tag := s.Kind.String()

	for _, n := range d.payloadLens {
		payload := p.bytes(stPayload, n)
		for _, epoch := range d.epochs13 {
			for _, seq := range d.seqs {
				for _, typ := range d.types13 {
					r := refimpl.Record13{
						Type: typ, Epoch: epoch, Seq: seq, CID: cid, Seq16: l.seq16, WithLength: l.withLength, Pad: l.pad, Payload: payload,
					}
					desc := lazy(func() string {
						return fmt.Sprintf("suite=%s layout=%s pattern=%s payload_len=%d epoch=%d seq=%d type=%d", s.Name, l, p.name, n, epoch, seq, typ)
					})
					o.Distinct++
					ref, err := refimpl.Seal13(s, k, r)
					if err != nil {
						f.add("harness-ref-seal-error", "%s: %v", desc, err)

						continue
					}

					if l.libCanSeal() {
						// (a) library seals, reference opens; (b) byte equality (the construction is deterministic)
						rec, err := libSeal13(prot, r)
						if err != nil {
							f.add("r13-lib-seal-error/"+tag, "%s: library Seal: %v", desc, err)
						} else {
							if o.Sample == nil && n == 1 {
								o.Sample = map[string]any{"case": desc.String(), "library_record": hx(rec).String()}
							}
							o.Evals += 2
							got, rest, err := refimpl.Open13(s, k, rec, l.cidLen, seq)
							switch {
							case err != nil:
								f.add("r13-lib-sealed-not-opened-by-ref/"+tag, "%s: reference cannot open the library's record: %v; library=%s reference=%s", desc, err, hx(rec), hx(ref))
							case len(rest) != 0 || !bytes.Equal(got.Payload, payload) || got.Type != typ || got.Pad != 0 || got.Seq != seq || got.Epoch != epoch&3 || !bytes.Equal(got.CID, cid):
								f.add("r13-lib-sealed-opens-to-different-plaintext/"+tag, "%s: reference opened the library's record to type=%d pad=%d epoch_low=%d seq=%d payload=%s",
									desc, got.Type, got.Pad, got.Epoch, got.Seq, hx(got.Payload))
							}
							if !bytes.Equal(rec, ref) {
								f.add("r13-bytes-differ/"+tag, "%s: library=%s reference=%s", desc, hx(rec), hx(ref))
							}
						}
					}

					// (c) reference seals (any layout), library opens
					o.Evals++
					ip, low, err := libOpen13(prot, ref, l.cidLen, seq)
					wantLow := uint16(seq & 0xff)
					if l.seq16 {
						wantLow = uint16(seq & 0xffff)
					}
					switch {
					case err != nil:
						f.add("r13-ref-sealed-not-opened-by-lib/"+tag, "%s: library cannot open the reference's record: %v; record=%s", desc, err, hx(ref))
					case !bytes.Equal(ip.Content, payload) || uint8(ip.RealType) != typ || int(ip.Zeros) != l.pad || low != wantLow:
						f.add("r13-ref-sealed-opens-to-different-plaintext/"+tag, "%s: library opened the reference's record to type=%d zeros=%d seq_low=%d payload=%s",
							desc, ip.RealType, ip.Zeros, low, hx(ip.Content))
					}
				}
			}
		}
	}
	o.NonTrivial = o.Distinct > 0

	return o
}
