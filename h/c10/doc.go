// Package c10 holds the E3 (bounded-exhaustive differential enumeration) part of property C10
// "Wire conformance: secrets and protected records match the RFC formulas": pion/dtls's key derivation
// and record protection are compared against the independent reference in ../refimpl on every point of
// a bounded structural grid. See c10_test.go for the grid and the oracles.
package c10
