package c03

import (
	"crypto/sha256"
	"fmt"
	"testing"
	"time"

	dtls "github.com/pion/dtls/v3"
	"github.com/pion/dtls/v3/internal/ciphersuite"
	"github.com/pion/dtls/v3/pkg/crypto/prf"
	"github.com/pion/dtls/v3/pkg/protocol"
	"github.com/pion/dtls/v3/pkg/protocol/extension"
	"github.com/pion/dtls/v3/pkg/protocol/handshake"
	"github.com/pion/dtls/v3/pkg/protocol/recordlayer"
	"github.com/pion/dtls/v3/zzverif/run"
	"github.com/pion/dtls/v3/zzverif/world"
)

// A server that owns no credential and tries the ABBREVIATED handshake: whatever session_id the ClientHello
// carries (or an invented one when it carries none) is echoed in the ServerHello, followed in the same
// datagram by ChangeCipherSpec and a Finished computed from a master secret anybody can guess (empty, or 48
// zero bytes). An abbreviated handshake authenticates the server by the stored master secret alone, so it is
// only sound for a session the client really holds a secret for. Honest client configurations under which a
// session_id is on the wire although no secret stands behind it: a ClientHello hook that sets one (the public
// hook option lets an application do that), a session store whose entry has an identifier and no secret, and
// the plain client (no identifier offered at all). The client verifies certificates against its roots and
// server name; it must never report an established connection or read the rogue's application data.
type resumeEchoCfg struct {
	name    string
	client  string // "hook", "store-no-secret", "plain"
	secret  string // "empty", "zero48"
	withEMS bool   // the ServerHello carries extended_master_secret + renegotiation_info
}

type emptyStore struct{ id []byte }

func (s *emptyStore) Set([]byte, dtls.Session) error { return nil }
func (s *emptyStore) Get([]byte) (dtls.Session, error) {
	return dtls.Session{ID: append([]byte(nil), s.id...)}, nil
}
func (s *emptyStore) Del([]byte) error { return nil }

type resumeEchoResult struct {
	offeredID    []byte
	finishedSent bool
	appData      []byte
	note         string
}

func rogueResumeEchoServer(w *world.World, pc *world.MemConn, cfg resumeEchoCfg, res *resumeEchoResult) error {
	fail := func(f string, a ...any) error { res.note = fmt.Sprintf(f, a...); return nil }
	buf := make([]byte, 8192)
	read := func() ([][]byte, error) {
		_ = pc.SetReadDeadline(time.Now().Add(20 * time.Second))
		n, _, err := pc.ReadFrom(buf)
		if err != nil {
			return nil, err
		}
		return recordlayer.UnpackDatagram(append([]byte{}, buf[:n]...))
	}
	peer := world.ClientAddr
	const suiteID = uint16(dtls.TLS_ECDHE_ECDSA_WITH_AES_128_GCM_SHA256)
	recs, err := read()
	if err != nil || len(recs) == 0 {
		return fail("read ClientHello: %v", err)
	}
	chRec := &recordlayer.RecordLayer{}
	if err = chRec.Unmarshal(recs[0]); err != nil {
		return fail("parse ClientHello record: %v", err)
	}
	hs, ok := chRec.Content.(*handshake.Handshake)
	if !ok {
		return fail("first record is not a handshake record")
	}
	ch, ok := hs.Message.(*handshake.MessageClientHello)
	if !ok {
		return fail("first message is not a ClientHello")
	}
	res.offeredID = append([]byte(nil), ch.SessionID...)
	sessionID := append([]byte(nil), ch.SessionID...)
	if len(sessionID) == 0 {
		sessionID = []byte("rogue-invented-session-id-32-byt")
	}
	transcript := append([]byte{}, recs[0][recordlayer.FixedHeaderSize:]...)
	var srvRandom handshake.Random
	if err = srvRandom.Populate(); err != nil {
		return fail("random: %v", err)
	}
	sid := suiteID
	sh := &handshake.MessageServerHello{Version: protocol.Version1_2, Random: srvRandom, SessionID: sessionID, CipherSuiteID: &sid, CompressionMethod: &protocol.CompressionMethod{}}
	if cfg.withEMS {
		sh.Extensions = []extension.Value{extension.Raw{Type: extension.TypeExtendedMasterSecret, Data: []byte{}}, extension.Raw{Type: extension.TypeRenegotiationInfo, Data: []byte{0}}}
	}
	h := &handshake.Handshake{Header: handshake.Header{MessageSequence: 0}, Message: sh}
	rawSH, err := h.Marshal()
	if err != nil {
		return fail("marshal ServerHello: %v", err)
	}
	transcript = append(transcript, rawSH...)
	r := &recordlayer.RecordLayer{Header: recordlayer.Header{Version: protocol.Version1_2, SequenceNumber: 0}, Content: h}
	dg, err := r.Marshal()
	if err != nil {
		return fail("marshal ServerHello record: %v", err)
	}
	ms := []byte{}
	if cfg.secret == "zero48" {
		ms = make([]byte, 48)
	}
	cr, sr := ch.Random.MarshalFixed(), srvRandom.MarshalFixed()
	suite := ciphersuite.ForID(ciphersuite.ID(suiteID), nil)
	if err = suite.Init(ms, cr[:], sr[:], false); err != nil {
		return fail("cipher suite init with the guessed master secret: %v", err)
	}
	vd, err := prf.VerifyDataServer(ms, transcript, sha256.New)
	if err != nil {
		return fail("verify data: %v", err)
	}
	ccs := &recordlayer.RecordLayer{Header: recordlayer.Header{Version: protocol.Version1_2, SequenceNumber: 1}, Content: &protocol.ChangeCipherSpec{}}
	rawCCS, err := ccs.Marshal()
	if err != nil {
		return fail("marshal ChangeCipherSpec: %v", err)
	}
	fin := &recordlayer.RecordLayer{Header: recordlayer.Header{Version: protocol.Version1_2, Epoch: 1},
		Content: &handshake.Handshake{Header: handshake.Header{MessageSequence: 1}, Message: &handshake.MessageFinished{VerifyData: vd}}}
	rawFin, err := fin.Marshal()
	if err != nil {
		return fail("marshal Finished: %v", err)
	}
	if rawFin, err = suite.Encrypt(fin, rawFin); err != nil {
		return fail("encrypt Finished: %v", err)
	}
	app := &recordlayer.RecordLayer{Header: recordlayer.Header{Version: protocol.Version1_2, Epoch: 1, SequenceNumber: 1}, Content: &protocol.ApplicationData{Data: []byte("from the rogue server")}}
	rawApp, err := app.Marshal()
	if err != nil {
		return fail("marshal application data: %v", err)
	}
	if rawApp, err = suite.Encrypt(app, rawApp); err != nil {
		return fail("encrypt application data: %v", err)
	}
	dg = append(append(dg, rawCCS...), rawFin...)
	if _, err = pc.WriteTo(dg, peer); err != nil {
		return fail("write flight: %v", err)
	}
	res.finishedSent = true
	sentApp := false
	for {
		recs, err = read()
		if err != nil {
			return nil
		}
		for _, raw := range recs {
			hd := recordlayer.Header{}
			if err = hd.Unmarshal(raw); err != nil {
				continue
			}
			if hd.ContentType == protocol.ContentTypeAlert && hd.Epoch == 0 {
				res.note = fmt.Sprintf("the client refused: alert %x", raw[recordlayer.FixedHeaderSize:])
				return nil
			}
			if hd.Epoch == 1 && !sentApp {
				// the client answered under the guessed keys: send it application data
				sentApp = true
				_, _ = pc.WriteTo(rawApp, peer)
			}
			if hd.Epoch != 1 || hd.ContentType != protocol.ContentTypeApplicationData {
				continue
			}
			if plain, derr := suite.Decrypt(hd, raw); derr == nil {
				res.appData = append([]byte(nil), plain[recordlayer.FixedHeaderSize:]...)
				return nil
			}
		}
	}
}

func resumeEchoConfigs() []resumeEchoCfg {
	var out []resumeEchoCfg
	for _, c := range []string{"hook", "store-no-secret", "plain"} {
		for _, s := range []string{"empty", "zero48"} {
			for _, e := range []bool{false, true} {
				out = append(out, resumeEchoCfg{name: fmt.Sprintf("client=%s/secret=%s/ems=%v", c, s, e), client: c, secret: s, withEMS: e})
			}
		}
	}
	return out
}

func c03ResumeEcho(t *testing.T, p *world.PKI, cfg resumeEchoCfg, seed uint64) run.Outcome {
	var o run.Outcome
	world.Run(t, seed, func(w *world.World) {
		id := []byte("0123456789abcdef0123456789abcdef")
		cc := world.Cfg{Suites: []dtls.CipherSuiteID{dtls.TLS_ECDHE_ECDSA_WITH_AES_128_GCM_SHA256}}
		switch cfg.client {
		case "hook":
			cc.Extra = append(cc.Extra, dtls.WithClientHelloMessageHook(func(m handshake.MessageClientHello) handshake.Message {
				m.SessionID = append([]byte(nil), id...)
				return &m
			}))
		case "store-no-secret":
			cc.Store = &emptyStore{id: id}
		}
		c, err := w.NewEndpoint(p, true, world.ClientAddr, world.ServerAddr, cc)
		if err != nil {
			o.NonTrivial, o.Class = true, "mustFail/resumption-echo/config-refused"
			return
		}
		pc := w.NewConn(world.ServerAddr)
		var res resumeEchoResult
		rogue := w.Go("rogue-resume-echo-server", func(*world.Op) error { return rogueResumeEchoServer(w, pc, cfg, &res) })
		c.StartHandshake()
		w.Settle()
		n := world.NewNet(w, world.ClientAddr, nil)
		_ = n.Pump(25*time.Second, func() bool { return c.HS.Done() && (res.finishedSent || rogue.Done()) })
		n.Flush()
		done, herr := c.HS.Result()
		established := (done && herr == nil) || c.Snapshot().Established
		var got []byte
		if established {
			wr := w.Go("client.Write", func(*world.Op) error { _, e := c.Conn.Write([]byte("for the authenticated server only")); return e })
			_ = c.Conn.SetReadDeadline(time.Now().Add(5 * time.Second))
			rd := w.Go("client.Read", func(op *world.Op) error {
				b := make([]byte, 256)
				k, e := c.Conn.Read(b)
				got = append([]byte(nil), b[:k]...)
				return e
			})
			_ = n.Pump(6*time.Second, func() bool { return wr.Done() && rd.Done() })
			n.Flush()
		}
		_ = pc.Close()
		w.Settle()
		o.NonTrivial = true
		st := "refused"
		if established {
			st = "established"
		}
		o.Class = "mustFail/resumption-echo/" + st
		o.Counters = map[string]int{"verdict_mustFail_" + st: 1}
		if established {
			o.Key = "resumption-echo-server-established"
			o.Violation = fmt.Sprintf("scenario=12/rogue-server/resumption-echo/%s: the honest client (roots + server name) reported an established connection with a server that presented no certificate: it echoed the session_id %x of the ClientHello (the client holds no secret for it) and sent Finished under a guessable master secret; application data read by the client=%q, by the rogue=%q; rogue: %s",
				cfg.name, res.offeredID, got, res.appData, res.note)
		}
		o.Sample = map[string]any{"scenario": "12/rogue-server/resumption-echo/" + cfg.name, "honest_side": st, "session_id_on_the_wire": len(res.offeredID), "rogue": res.note}
		_ = c.Conn.Close()
	})
	return o
}
