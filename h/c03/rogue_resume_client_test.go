package c03

import (
	"crypto/sha256"
	"errors"
	"fmt"
	"testing"
	"time"

	dtls "github.com/pion/dtls/v3"
	"github.com/pion/dtls/v3/internal/ciphersuite"
	"github.com/pion/dtls/v3/pkg/crypto/prf"
	"github.com/pion/dtls/v3/pkg/protocol"
	"github.com/pion/dtls/v3/pkg/protocol/handshake"
	"github.com/pion/dtls/v3/pkg/protocol/recordlayer"
	"github.com/pion/dtls/v3/zzverif/run"
	"github.com/pion/dtls/v3/zzverif/world"
)

// The mirror image of the resumption-echo server: a hand-written CLIENT that owns no credential and no session
// secret. It offers a session_id and, if the server answers with the abbreviated flight (ServerHello echoing the
// id, ChangeCipherSpec, Finished), completes the handshake from the EMPTY master secret. A server resumes a
// session only when its store really holds a secret for the offered id. Honest server configurations under
// which the lookup yields something else: a store whose Get fails once and hands back a partial entry (id, no
// secret) together with the error, a store that returns an entry without a secret and no error, and an
// ordinary store that does not know the id (control: full handshake, the rogue gives up).
type resumeClientCfg struct {
	name   string
	store  string // "get-error-partial", "entry-without-secret", "unknown-id"
	policy dtls.ClientAuthType
}

type serverFaultStore struct {
	mode string
	gets int
}

func (s *serverFaultStore) Set([]byte, dtls.Session) error { return nil }
func (s *serverFaultStore) Del([]byte) error               { return nil }
func (s *serverFaultStore) Get(k []byte) (dtls.Session, error) {
	s.gets++
	switch s.mode {
	case "get-error-partial":
		if s.gets == 1 {
			return dtls.Session{ID: append([]byte(nil), k...)}, errors.New("injected: session backend unavailable")
		}
	case "entry-without-secret":
		return dtls.Session{ID: append([]byte(nil), k...)}, nil
	}
	return dtls.Session{}, nil
}

type resumeClientResult struct {
	abbreviated  bool
	finishedSent bool
	appData      []byte
	note         string
}

func rogueResumeClient(w *world.World, pc *world.MemConn, res *resumeClientResult) error {
	fail := func(f string, a ...any) error { res.note = fmt.Sprintf(f, a...); return nil }
	buf := make([]byte, 8192)
	read := func() ([][]byte, error) {
		_ = pc.SetReadDeadline(time.Now().Add(20 * time.Second))
		n, _, err := pc.ReadFrom(buf)
		if err != nil {
			return nil, err
		}
		return recordlayer.UnpackDatagram(append([]byte{}, buf[:n]...))
	}
	peer := world.ServerAddr
	const suiteID = uint16(dtls.TLS_ECDHE_ECDSA_WITH_AES_128_GCM_SHA256)
	var cliRandom handshake.Random
	if err := cliRandom.Populate(); err != nil {
		return fail("random: %v", err)
	}
	sessionID := []byte("rogue-client-offers-this-id-0032")
	var cookie []byte
	var chRaw []byte
	sendHello := func(msgSeq uint16, recSeq uint64) error {
		ch := &handshake.MessageClientHello{Version: protocol.Version1_2, Random: cliRandom, SessionID: sessionID, Cookie: cookie,
			CipherSuiteIDs: []uint16{suiteID}, CompressionMethods: []*protocol.CompressionMethod{{}}}
		h := &handshake.Handshake{Header: handshake.Header{MessageSequence: msgSeq}, Message: ch}
		raw, err := h.Marshal()
		if err != nil {
			return err
		}
		chRaw = raw
		r := &recordlayer.RecordLayer{Header: recordlayer.Header{Version: protocol.Version1_2, SequenceNumber: recSeq}, Content: h}
		d, err := r.Marshal()
		if err != nil {
			return err
		}
		_, err = pc.WriteTo(d, peer)
		return err
	}
	if err := sendHello(0, 0); err != nil {
		return fail("send ClientHello: %v", err)
	}
	var srvRandom handshake.Random
	var shRaw, protFin []byte
	sentSecond := false
	for protFin == nil {
		recs, err := read()
		if err != nil {
			return fail("read the server's answer: %v", err)
		}
		for _, raw := range recs {
			hd := &recordlayer.Header{}
			if err = hd.Unmarshal(raw); err != nil {
				return fail("record header: %v", err)
			}
			body := raw[recordlayer.FixedHeaderSize:]
			switch {
			case hd.ContentType == protocol.ContentTypeAlert:
				return fail("the server refused: alert %x", body)
			case hd.ContentType == protocol.ContentTypeHandshake && hd.Epoch == 0:
				hh := &handshake.Header{}
				if err = hh.Unmarshal(body); err != nil {
					return fail("handshake header: %v", err)
				}
				switch hh.Type {
				case handshake.TypeHelloVerifyRequest:
					if sentSecond {
						continue
					}
					hvr := &handshake.MessageHelloVerifyRequest{}
					if err = hvr.Unmarshal(body[handshake.HeaderLength:]); err != nil {
						return fail("HelloVerifyRequest: %v", err)
					}
					cookie = hvr.Cookie
					sentSecond = true
					if err = sendHello(1, 1); err != nil {
						return fail("send second ClientHello: %v", err)
					}
				case handshake.TypeServerHello:
					sh := &handshake.MessageServerHello{}
					if err = sh.Unmarshal(body[handshake.HeaderLength:]); err != nil {
						return fail("ServerHello: %v", err)
					}
					srvRandom = sh.Random
					shRaw = append([]byte(nil), body[:handshake.HeaderLength+int(hh.Length)]...)
					if string(sh.SessionID) == string(sessionID) {
						res.abbreviated = true
					}
				case handshake.TypeCertificate, handshake.TypeServerKeyExchange, handshake.TypeServerHelloDone:
					return fail("the server runs a full handshake (message type %d): nothing to gain without a credential", hh.Type)
				}
			case hd.ContentType == protocol.ContentTypeHandshake && hd.Epoch == 1:
				protFin = raw
			}
		}
	}
	if !res.abbreviated || shRaw == nil {
		return fail("protected record without an abbreviated ServerHello")
	}
	ms := []byte{}
	cr, sr := cliRandom.MarshalFixed(), srvRandom.MarshalFixed()
	suite := ciphersuite.ForID(ciphersuite.ID(suiteID), nil)
	if err := suite.Init(ms, cr[:], sr[:], true); err != nil {
		return fail("cipher suite init with the empty master secret: %v", err)
	}
	fh := recordlayer.Header{}
	if err := fh.Unmarshal(protFin); err != nil {
		return fail("server Finished header: %v", err)
	}
	sf, err := suite.Decrypt(fh, protFin)
	if err != nil {
		return fail("the server's Finished does not open under the empty master secret: %v", err)
	}
	transcript := append(append(append([]byte{}, chRaw...), shRaw...), sf[recordlayer.FixedHeaderSize:]...)
	vd, err := prf.VerifyDataClient(ms, transcript, sha256.New)
	if err != nil {
		return fail("verify data: %v", err)
	}
	nextMsg, nextRec := uint16(1), uint64(1)
	if sentSecond {
		nextMsg, nextRec = 2, 2
	}
	ccs := &recordlayer.RecordLayer{Header: recordlayer.Header{Version: protocol.Version1_2, SequenceNumber: nextRec}, Content: &protocol.ChangeCipherSpec{}}
	rawCCS, err := ccs.Marshal()
	if err != nil {
		return fail("marshal ChangeCipherSpec: %v", err)
	}
	fin := &recordlayer.RecordLayer{Header: recordlayer.Header{Version: protocol.Version1_2, Epoch: 1},
		Content: &handshake.Handshake{Header: handshake.Header{MessageSequence: nextMsg}, Message: &handshake.MessageFinished{VerifyData: vd}}}
	rawFin, err := fin.Marshal()
	if err != nil {
		return fail("marshal Finished: %v", err)
	}
	if rawFin, err = suite.Encrypt(fin, rawFin); err != nil {
		return fail("encrypt Finished: %v", err)
	}
	app := &recordlayer.RecordLayer{Header: recordlayer.Header{Version: protocol.Version1_2, Epoch: 1, SequenceNumber: 1}, Content: &protocol.ApplicationData{Data: []byte("data from a client without any credential")}}
	rawApp, err := app.Marshal()
	if err != nil {
		return fail("marshal application data: %v", err)
	}
	if rawApp, err = suite.Encrypt(app, rawApp); err != nil {
		return fail("encrypt application data: %v", err)
	}
	if _, err = pc.WriteTo(append(rawCCS, rawFin...), peer); err != nil {
		return fail("write the last flight: %v", err)
	}
	res.finishedSent = true
	_, _ = pc.WriteTo(rawApp, peer)
	for {
		recs, rerr := read()
		if rerr != nil {
			return nil
		}
		for _, raw := range recs {
			hd := recordlayer.Header{}
			if hd.Unmarshal(raw) != nil || hd.Epoch != 1 || hd.ContentType != protocol.ContentTypeApplicationData {
				continue
			}
			if plain, derr := suite.Decrypt(hd, raw); derr == nil {
				res.appData = append([]byte(nil), plain[recordlayer.FixedHeaderSize:]...)
				return nil
			}
		}
	}
}

func resumeClientConfigs() []resumeClientCfg {
	var out []resumeClientCfg
	for _, st := range []string{"get-error-partial", "entry-without-secret", "unknown-id"} {
		for _, pol := range []struct {
			p dtls.ClientAuthType
			n string
		}{{dtls.NoClientCert, "NoClientCert"}, {dtls.RequireAndVerifyClientCert, "RequireAndVerify"}} {
			out = append(out, resumeClientCfg{name: fmt.Sprintf("store=%s/policy=%s", st, pol.n), store: st, policy: pol.p})
		}
	}
	return out
}

func c03ResumeClient(t *testing.T, p *world.PKI, cfg resumeClientCfg, seed uint64) run.Outcome {
	var o run.Outcome
	world.Run(t, seed, func(w *world.World) {
		sc := world.Cfg{Suites: []dtls.CipherSuiteID{dtls.TLS_ECDHE_ECDSA_WITH_AES_128_GCM_SHA256}, ClientAuth: cfg.policy, Store: &serverFaultStore{mode: cfg.store}}
		s, err := w.NewEndpoint(p, false, world.ServerAddr, world.ClientAddr, sc)
		if err != nil {
			o.NonTrivial, o.Class = true, "mustFail/resuming-client/config-refused"
			return
		}
		pc := w.NewConn(world.ClientAddr)
		var res resumeClientResult
		s.StartHandshake()
		w.Settle()
		rogue := w.Go("rogue-resuming-client", func(*world.Op) error { return rogueResumeClient(w, pc, &res) })
		w.Settle()
		n := world.NewNet(w, world.ClientAddr, nil)
		_ = n.Pump(25*time.Second, func() bool { return s.HS.Done() && (res.finishedSent || rogue.Done()) })
		n.Flush()
		done, herr := s.HS.Result()
		established := (done && herr == nil) || s.Snapshot().Established
		var got []byte
		if established {
			_ = s.Conn.SetReadDeadline(time.Now().Add(5 * time.Second))
			rd := w.Go("server.Read", func(*world.Op) error {
				b := make([]byte, 256)
				k, e := s.Conn.Read(b)
				got = append([]byte(nil), b[:k]...)
				return e
			})
			_ = n.Pump(6*time.Second, rd.Done)
			n.Flush()
		}
		_ = pc.Close()
		w.Settle()
		o.NonTrivial = true
		st := "refused"
		if established {
			st = "established"
		}
		o.Class = "mustFail/resuming-client/" + st
		o.Counters = map[string]int{"verdict_mustFail_" + st: 1}
		if established {
			o.Key = "resuming-client-without-secret-established"
			o.Violation = fmt.Sprintf("scenario=12/rogue-client/resumes-without-secret/%s: the honest server reported an established connection with a client that holds no credential and no session secret: it offered a session_id, the server answered with the abbreviated flight, and the client's Finished came from the empty master secret; application data read by the server=%q; rogue: %s",
				cfg.name, got, res.note)
		}
		o.Sample = map[string]any{"scenario": "12/rogue-client/resumes-without-secret/" + cfg.name, "honest_side": st, "abbreviated_flight_seen": res.abbreviated, "rogue": res.note}
		_ = s.Conn.Close()
	})
	return o
}
