package c03

import (
	"bytes"
	"crypto"
	"crypto/ecdsa"
	"crypto/tls"
	"crypto/x509"
	"errors"
	"fmt"
	"strings"
	"testing"
	"time"

	dtls "github.com/pion/dtls/v3"
	dtlsflight "github.com/pion/dtls/v3/internal/flight"
	dtlsstate "github.com/pion/dtls/v3/internal/state"
	"github.com/pion/dtls/v3/pkg/crypto/hash"
	"github.com/pion/dtls/v3/pkg/crypto/signature"
	"github.com/pion/dtls/v3/pkg/protocol/handshake"
	"github.com/pion/dtls/v3/zzverif/checks"
	"github.com/pion/dtls/v3/zzverif/refimpl"
	"github.com/pion/dtls/v3/zzverif/run"
	"github.com/pion/dtls/v3/zzverif/world"
)

// C03 — peer authentication. Enumerated: the finite catalogue (version x honest side's policy /
// verification setting x credential type x every single deviation of an otherwise competent rogue
// peer) x every delivery fault mask with <=1 fault. Oracle: an independent policy table says whether
// the honest side may complete; where it may not, the honest side never reports an established
// connection and never delivers application data. Positive controls (deviation off) must complete.

type verdict int

const (
	mustFail verdict = iota
	mayComplete
	mustComplete // positive control
	unspecified  // the policy text does not decide; reported for information only
)

type scen struct {
	name        string
	v13         bool
	rogueClient bool // which side is the rogue (the other is honest)
	c, s        world.Cfg
	editor      world.FlightEdit
	want        verdict
	devKind     string
}

var pskGood = []byte{1, 2, 3, 4, 5, 6, 7, 8}
var pskBad = []byte{1, 2, 3, 4, 5, 6, 7, 9}

func signerOf(c tls.Certificate) crypto.Signer { return c.PrivateKey.(crypto.Signer) }

func v(c world.Cfg, v13 bool) world.Cfg {
	if v13 {
		c.MinV, c.MaxV = 13, 13
	}
	return c
}

func scenarios(p *world.PKI) []scen {
	var out []scen
	// ---------------- rogue SERVER, honest client ----------------
	type srvCred struct {
		name  string
		cert  tls.Certificate
		other tls.Certificate // another valid identity (for substitution)
		suite []dtls.CipherSuiteID
	}
	creds := []srvCred{
		{"ecdsa", p.ServerECDSA, p.ServerECDSA2, nil},
		{"rsa", p.ServerRSA, p.ServerECDSA, []dtls.CipherSuiteID{dtls.TLS_ECDHE_RSA_WITH_AES_128_GCM_SHA256}},
		{"ed25519", p.ServerEd25519, p.ServerECDSA, nil},
	}
	for _, v13 := range []bool{false, true} {
		ver := "12"
		srvFlight := "Flight 4"
		if v13 {
			ver = "13"
		}
		for _, cr := range creds {
			if v13 && cr.name != "ecdsa" {
				continue // DTLS 1.3 with RSA/Ed25519 server keys does not complete even honestly on this tree (see C11 findings)
			}
			// "skip+pin" / "skip+connpin": chain verification off, the application pins the expected leaf in its
			// VerifyPeerCertificate / VerifyConnection callback (the WebRTC fingerprint pattern)
			for _, verify := range []string{"", "skip", "skip+pin", "skip+connpin"} {
				chainChecked := verify != "skip"
				base := func() (world.Cfg, world.Cfg) {
					c := v(world.Cfg{Verify: strings.TrimSuffix(strings.TrimSuffix(verify, "+pin"), "+connpin")}, v13)
					switch {
					case strings.HasSuffix(verify, "+pin"):
						c.Extra = []dtls.Option{pinPeer(cr.cert.Certificate[0])}
					case strings.HasSuffix(verify, "+connpin"):
						c.Extra = []dtls.Option{pinConn(cr.cert.Certificate[0])}
					}
					s := v(world.Cfg{Cert: &cr.cert}, v13)
					if cr.suite != nil && !v13 {
						c.Suites, s.Suites = cr.suite, cr.suite
					}
					return c, s
				}
				add := func(dev string, want verdict, mod func(c, s *world.Cfg), ed world.FlightEdit) {
					c, s := base()
					if mod != nil {
						mod(&c, &s)
					}
					out = append(out, scen{name: fmt.Sprintf("%s/rogue-server/%s/verify=%s/%s", ver, cr.name, orDefault(verify), dev), v13: v13, c: c, s: s, editor: ed, want: want, devKind: dev})
				}
				add("none(control)", mustComplete, nil, nil)
				chainVerdict := mustFail
				if !chainChecked {
					chainVerdict = mayComplete
				}
				if cr.name == "ecdsa" {
					add("wrong-ca", chainVerdict, func(c, s *world.Cfg) { s.Cert = &p.ServerWrongCA }, nil)
					add("wrong-name", chainVerdict, func(c, s *world.Cfg) { s.Cert = &p.ServerWrongName }, nil)
					add("expired", chainVerdict, func(c, s *world.Cfg) { s.Cert = &p.ServerExpired }, nil)
				}
				// valid chain A, but the handshake is signed with another key
				add("substituted-cert(sign-with-other-key)", mustFail, func(c, s *world.Cfg) {
					if cr.name == "ecdsa" {
						s.Cert = world.WithSigner(cr.cert, signerOf(cr.other))
					} else {
						// keep key type consistent with the suite: present ECDSA chain? no — present own chain, sign with a fresh key of the same kind is not available; use flip instead
						s.Cert = world.WithSigner(cr.cert, world.FlipSigner{Signer: signerOf(cr.cert)})
					}
				}, nil)
				add("signature-corrupted", mustFail, func(c, s *world.Cfg) { s.Cert = world.WithSigner(cr.cert, world.FlipSigner{Signer: signerOf(cr.cert)}) }, nil)
				add("signature-over-other-data", mustFail, func(c, s *world.Cfg) {
					s.Cert = world.WithSigner(cr.cert, world.StaleSigner{Signer: signerOf(cr.cert)})
				}, nil)
				if cr.name == "ecdsa" {
					// The victim's (public) certificate first, then a certificate for the attacker's own key, and the
					// handshake signed with that key: the leaf is the first entry, extra entries prove nothing.
					for _, order := range []string{"victim-then-own", "victim-then-own-then-victim"} {
						order := order
						add("certificate-list["+order+"]-signed-by-own-key", mustFail, func(c, s *world.Cfg) {
							list := [][]byte{cr.cert.Certificate[0], cr.other.Certificate[0]}
							if order == "victim-then-own-then-victim" {
								list = append(list, cr.cert.Certificate[0])
							}
							s.Cert = &tls.Certificate{Certificate: list, PrivateKey: cr.other.PrivateKey, Leaf: cr.cert.Leaf}
						}, nil)
					}
				}
				if cr.name == "ecdsa" {
					// A CA-flagged certificate for the attacker's own key (issued by nobody the victim trusts) first,
					// the victim's valid certificate behind it, signed with the attacker's key: the first entry is the
					// leaf whatever its basic constraints say; a later entry that validates proves nothing.
					add("certificate-list[own-ca-flagged-then-victim]-signed-by-own-key", chainVerdict, func(c, s *world.Cfg) {
						s.Cert = &tls.Certificate{Certificate: [][]byte{p.OtherCA.Raw, cr.cert.Certificate[0]}, PrivateKey: p.OtherCAKey, Leaf: p.OtherCA}
					}, nil)
				}
				if !v13 && cr.name == "ecdsa" {
					// The attacker knows only the victim's certificate (public key): it claims a scheme without
					// prehash (Ed25519) for the ECDSA certificate and sends a signature forged for the empty digest.
					pub := cr.cert.Leaf.PublicKey.(*ecdsa.PublicKey)
					forged := func() []byte { b, _ := world.ForgeZeroDigestECDSA(pub); return b }
					add("scheme-confusion-forgery(public-key-only)", mustFail, func(c, s *world.Cfg) {
						s.Cert = world.WithSigner(cr.cert, world.PublicOnlySigner{Pub: pub})
					}, world.ClaimScheme(srvFlight, hash.Ed25519, signature.Ed25519, forged))
				}
				if !v13 {
					add("no-certificate-message", mustFail, nil, world.DropMessages(srvFlight, handshake.TypeCertificate))
					add("no-server-key-exchange", mustFail, nil, world.DropMessages(srvFlight, handshake.TypeServerKeyExchange))
				} else {
					add("no-certificate-and-certificateverify", mustFail, nil, world.DropMessages(srvFlight, handshake.TypeCertificate, handshake.TypeCertificateVerify))
					add("no-certificateverify", mustFail, nil, world.DropMessages(srvFlight, handshake.TypeCertificateVerify))
					add("no-certificate-message", mustFail, nil, world.DropMessages(srvFlight, handshake.TypeCertificate))
				}
			}
		}
	}
	// PSK: the peer must know the key (both directions)
	for _, suite := range []dtls.CipherSuiteID{dtls.TLS_PSK_WITH_AES_128_GCM_SHA256, dtls.TLS_PSK_WITH_AES_128_CBC_SHA256, dtls.TLS_ECDHE_PSK_WITH_AES_128_CBC_SHA256, dtls.TLS_PSK_WITH_CHACHA20_POLY1305_SHA256} {
		sn := fmt.Sprintf("%#04x", uint16(suite))
		mk := func(cpsk, spsk []byte) (world.Cfg, world.Cfg) {
			return world.Cfg{Cred: "psk", PSK: cpsk, Suites: []dtls.CipherSuiteID{suite}}, world.Cfg{Cred: "psk", PSK: spsk, Suites: []dtls.CipherSuiteID{suite}}
		}
		c, s := mk(pskGood, pskGood)
		out = append(out, scen{name: "12/psk/" + sn + "/none(control)", c: c, s: s, want: mustComplete, devKind: "none(control)"})
		c, s = mk(pskGood, pskBad)
		out = append(out, scen{name: "12/rogue-server/psk/" + sn + "/wrong-psk", c: c, s: s, want: mustFail, devKind: "wrong-psk"})
		c, s = mk(pskBad, pskGood)
		out = append(out, scen{name: "12/rogue-client/psk/" + sn + "/wrong-psk", rogueClient: true, c: c, s: s, want: mustFail, devKind: "wrong-psk"})
	}

	// ---------------- rogue CLIENT, honest server with policy ----------------
	policies := []dtls.ClientAuthType{dtls.NoClientCert, dtls.RequestClientCert, dtls.RequireAnyClientCert, dtls.VerifyClientCertIfGiven, dtls.RequireAndVerifyClientCert}
	pname := map[dtls.ClientAuthType]string{dtls.NoClientCert: "NoClientCert", dtls.RequestClientCert: "Request", dtls.RequireAnyClientCert: "RequireAny", dtls.VerifyClientCertIfGiven: "VerifyIfGiven", dtls.RequireAndVerifyClientCert: "RequireAndVerify"}
	type cliCred struct {
		name  string
		cert  tls.Certificate
		other tls.Certificate
	}
	ccreds := []cliCred{{"ecdsa", p.ClientECDSA, p.ClientECDSA2}, {"rsa", p.ClientRSA, p.ClientECDSA}, {"ed25519", p.ClientEd25519, p.ClientECDSA}}
	type polMode struct {
		pol dtls.ClientAuthType
		pin string // "" / "pin" / "connpin": the application pins the expected client leaf in a callback
	}
	var pms []polMode
	for _, pol := range policies {
		pms = append(pms, polMode{pol, ""})
	}
	pms = append(pms, polMode{dtls.RequireAnyClientCert, "pin"}, polMode{dtls.RequireAnyClientCert, "connpin"})
	for _, v13 := range []bool{false, true} {
		ver := "12"
		cliFlight := "Flight 5"
		if v13 {
			ver = "13"
		}
		for _, pm := range pms {
			pol := pm.pol
			for _, cr := range ccreds {
				if v13 && cr.name != "ecdsa" {
					continue
				}
				polName := pname[pol]
				if pm.pin != "" {
					polName += "+" + pm.pin
				}
				add := func(dev string, want verdict, mod func(c, s *world.Cfg), ed world.FlightEdit) {
					c := v(world.Cfg{Cert: &cr.cert}, v13)
					s := v(world.Cfg{ClientAuth: pol, SkipHelloVerify: v13}, v13)
					switch pm.pin {
					case "pin":
						s.Extra = []dtls.Option{pinPeer(cr.cert.Certificate[0])}
					case "connpin":
						s.Extra = []dtls.Option{pinConn(cr.cert.Certificate[0])}
					}
					if mod != nil {
						mod(&c, &s)
					}
					out = append(out, scen{name: fmt.Sprintf("%s/rogue-client/%s/policy=%s/%s", ver, cr.name, polName, dev), v13: v13, rogueClient: true, c: c, s: s, editor: ed, want: want, devKind: dev})
				}
				requested := pol != dtls.NoClientCert
				required := pol == dtls.RequireAnyClientCert || pol == dtls.RequireAndVerifyClientCert
				verified := pol == dtls.VerifyClientCertIfGiven || pol == dtls.RequireAndVerifyClientCert || pm.pin != ""
				if pm.pin != "" {
					// another valid identity than the pinned one, presented and proven correctly
					add("other-identity", mustFail, func(c, s *world.Cfg) { c.Cert = &cr.other }, nil)
				}
				add("none(control)", mustComplete, nil, nil)
				if cr.name == "ecdsa" {
					w := mayComplete
					if required {
						w = mustFail
					}
					add("no-certificate", w, func(c, s *world.Cfg) { c.Cert = nil; c.Cred = "none" }, nil)
					// the rogue leaves the Certificate message out altogether (the library client would send an empty one)
					add("certificate-message-omitted", w, func(c, s *world.Cfg) { c.Cert = nil; c.Cred = "none" }, world.DropMessages(cliFlight, handshake.TypeCertificate))
					chain := mayComplete
					if verified {
						chain = mustFail
					}
					// The library client would not offer a certificate whose issuer is not among the CAs named in the
					// CertificateRequest; a rogue presents it anyway (GetClientCertificate callback).
					force := func(cert *tls.Certificate) dtls.ClientOption {
						return dtls.WithGetClientCertificate(func(*dtls.CertificateRequestInfo) (*tls.Certificate, error) { return cert, nil })
					}
					add("wrong-ca", chain, func(c, s *world.Cfg) {
						c.Cert = nil
						c.Cred = "none"
						c.ExtraClient = []dtls.ClientOption{force(&p.ClientWrongCA)}
					}, nil)
					add("expired", chain, func(c, s *world.Cfg) {
						c.Cert = nil
						c.Cred = "none"
						c.ExtraClient = []dtls.ClientOption{force(&p.ClientExpired)}
					}, nil)
					// A CA-flagged certificate for the rogue's own key (issued by nobody the server trusts) first, a
					// valid client certificate (public data) behind it, CertificateVerify by the rogue's key.
					add("certificate-list[own-ca-flagged-then-victim]-signed-by-own-key", chain, func(c, s *world.Cfg) {
						c.Cert = nil
						c.Cred = "none"
						c.ExtraClient = []dtls.ClientOption{force(&tls.Certificate{Certificate: [][]byte{p.OtherCA.Raw, cr.cert.Certificate[0]}, PrivateKey: p.OtherCAKey, Leaf: p.OtherCA})}
					}, nil)
				}
				// proof-of-possession deviations
				pop := mustFail
				switch {
				case !requested:
					pop = mayComplete // nothing is requested, nothing is sent
				case pol == dtls.RequestClientCert:
					pop = unspecified
				}
				add("certificate-without-certificateverify", pop, nil, world.DropMessages(cliFlight, handshake.TypeCertificateVerify))
				add("certificateverify-by-other-key", pop, func(c, s *world.Cfg) {
					if cr.name == "ecdsa" {
						c.Cert = world.WithSigner(cr.cert, signerOf(cr.other))
					} else {
						c.Cert = world.WithSigner(cr.cert, world.FlipSigner{Signer: signerOf(cr.cert)})
					}
				}, nil)
				if !v13 && cr.name == "ecdsa" {
					pub := cr.cert.Leaf.PublicKey.(*ecdsa.PublicKey)
					forged := func() []byte { b, _ := world.ForgeZeroDigestECDSA(pub); return b }
					add("scheme-confusion-forgery(public-key-only)", pop, func(c, s *world.Cfg) {
						c.Cert = world.WithSigner(cr.cert, world.PublicOnlySigner{Pub: pub})
					}, world.ClaimScheme(cliFlight, hash.Ed25519, signature.Ed25519, forged))
				}
				if cr.name == "ecdsa" {
					add("certificate-list[victim-then-own]-signed-by-own-key", pop, func(c, s *world.Cfg) {
						c.Cert = &tls.Certificate{Certificate: [][]byte{cr.cert.Certificate[0], cr.other.Certificate[0]}, PrivateKey: cr.other.PrivateKey, Leaf: cr.cert.Leaf}
					}, nil)
				}
				add("certificateverify-corrupted", pop, func(c, s *world.Cfg) { c.Cert = world.WithSigner(cr.cert, world.FlipSigner{Signer: signerOf(cr.cert)}) }, nil)
				add("certificateverify-over-stale-transcript", pop, func(c, s *world.Cfg) {
					c.Cert = world.WithSigner(cr.cert, world.StaleSigner{Signer: signerOf(cr.cert)})
				}, nil)
			}
		}
	}
	return out
}

var errPin = errors.New("verif: certificate is not the pinned one")

func pinPeer(want []byte) dtls.Option {
	return dtls.WithVerifyPeerCertificate(func(raw [][]byte, _ [][]*x509.Certificate) error {
		if len(raw) == 0 || !bytes.Equal(raw[0], want) {
			return errPin
		}
		return nil
	})
}

func pinConn(want []byte) dtls.Option {
	return dtls.WithVerifyConnection(func(st *dtls.State) error {
		if len(st.PeerCertificates) == 0 || !bytes.Equal(st.PeerCertificates[0], want) {
			return errPin
		}
		return nil
	})
}

func orDefault(s string) string {
	if s == "" {
		return "roots+name"
	}
	return s
}

func c03Run(t *testing.T, p *world.PKI, sc scen, m world.Mask, seed uint64) run.Outcome {
	var o run.Outcome
	world.Run(t, seed, func(w *world.World) {
		c, err := w.NewEndpoint(p, true, world.ClientAddr, world.ServerAddr, sc.c)
		if err != nil {
			o.Skip = true
			return
		}
		s, err := w.NewEndpoint(p, false, world.ServerAddr, world.ClientAddr, sc.s)
		if err != nil {
			o.Skip = true
			return
		}
		pr := &world.Pair{W: w, C: c, S: s, FirstID: w.EmittedCount()}
		rogue, honest := s, c
		if sc.rogueClient {
			rogue, honest = c, s
		}
		if sc.editor != nil {
			rogue.SetFlightEditor(sc.editor)
		}
		c.StartHandshake()
		w.Settle()
		s.StartHandshake()
		w.Settle()
		n := world.NewNet(w, world.ClientAddr, m)
		tr := pr.Trace(n)
		hz := 25*time.Second + time.Duration(len(m))*world.HoldCap
		_ = n.Pump(hz, pr.BothDone)
		n.ClearFaults()
		n.Flush()
		o.States, o.Transitions = tr.States, tr.Trans
		hdone, herr := honest.HS.Result()
		hsnap := honest.Snapshot()
		established := (hdone && herr == nil) || hsnap.Established
		// If the rogue believes it is connected, let it talk: nothing may reach the honest application.
		var got []byte
		if established || rogue.HS.OK() {
			if rogue.HS.OK() {
				wr := w.Go("rogue.Write", func(*world.Op) error { _, e := rogue.Conn.Write([]byte("rogue-data")); return e })
				_ = n.Pump(2*time.Second, wr.Done)
				n.Flush()
			}
			if established {
				_ = honest.Conn.SetReadDeadline(time.Now().Add(50 * time.Millisecond))
				rd := w.Go("honest.Read", func(op *world.Op) error {
					b := make([]byte, 256)
					k, e := honest.Conn.Read(b)
					op.Set(k, append([]byte(nil), b[:k]...))
					return e
				})
				w.Sleep(60 * time.Millisecond)
				if rd.Done() {
					got = rd.Data
				}
			}
		}
		o.NonTrivial = true
		res := "refused"
		if established {
			res = "established"
		}
		o.Class = fmt.Sprintf("%s/%s/%s", verdictName(sc.want), sc.devKind, res)
		switch sc.want {
		case mustFail:
			if established {
				o.Violation = fmt.Sprintf("scenario=%s mask=%s: the honest %s reported an established connection although the peer lacks the required credential (%s); honest handshake result=%v; data delivered to the application=%q",
					sc.name, m, honest.Name, sc.devKind, honest.HS, got)
				o.Key = c03Key(sc)
			} else if len(got) > 0 {
				o.Violation = fmt.Sprintf("scenario=%s mask=%s: application data %q delivered on a connection that must not be established", sc.name, m, got)
			}
		case mustComplete:
			if !pr.BothOK() {
				// non-vacuity control: with the deviation switched off the same scenario completes (C02 owns liveness under faults)
				if len(m) == 0 {
					o.Violation = fmt.Sprintf("scenario=%s mask=none: positive control did not complete: client=%v server=%v", sc.name, c.HS, s.HS)
					o.Key = "positive-control-failed:" + sc.name
				}
			}
		}
		o.Sample = map[string]any{"scenario": sc.name, "mask": m.String(), "policy_verdict": verdictName(sc.want), "honest_side": res}
		o.Counters = map[string]int{"verdict_" + verdictName(sc.want) + "_" + res: 1}
		pr.CloseAll()
	})
	return o
}

// ---- second attempt: what the refused peer can do with what the first attempt left behind ---------------

// plantedStore is the attacker's client-side session store: whatever key the library looks up, it finds
// the one session the attacker learned during the first attempt (session ID from the ServerHello on the
// wire, master secret from the attacker's own key exchange).
type plantedStore struct{ s dtls.Session }

func (p *plantedStore) Set([]byte, dtls.Session) error { return nil }
func (p *plantedStore) Get([]byte) (dtls.Session, error) {
	return dtls.Session{ID: append([]byte(nil), p.s.ID...), Secret: append([]byte(nil), p.s.Secret...)}, nil
}
func (p *plantedStore) Del([]byte) error { return nil }

// serverHelloSessionID finds the session ID the server assigned in its (last) ServerHello.
func serverHelloSessionID(w *world.World, from world.Addr) []byte {
	var sid []byte
	for _, d := range w.Emitted() {
		if d.Src != from {
			continue
		}
		recs, _ := world.ParseDatagram(d.Data, 0)
		for _, r := range recs {
			for _, h := range r.HS {
				if h.Type == 2 && h.FragOff == 0 && len(h.Body) >= 35 {
					n := int(h.Body[34])
					if len(h.Body) >= 35+n && n > 0 {
						sid = append([]byte(nil), h.Body[35:35+n]...)
					}
				}
			}
		}
	}
	return sid
}

// c03Second runs a must-fail rogue-client scenario against a server that has a session store, in one of
// two modes — "refused": the first attempt runs until the server has refused it; "withheld": the rogue
// sends everything but its Finished, so the first attempt stays pending — and then lets the same rogue
// (same missing credential) connect again from another address, offering the session ID of the first
// attempt with the master secret it computed there. The honest server must not report an established
// connection on the second attempt either: the peer still lacks the credential the policy demands.
func c03Second(t *testing.T, p *world.PKI, sc scen, mode string, seed uint64) run.Outcome {
	var o run.Outcome
	world.Run(t, seed, func(w *world.World) {
		store := world.NewMapStore()
		scfg := sc.s
		scfg.Store = store
		// The rogue does not offer the extended master secret (its choice; the server's default policy only
		// requests it): the master secret then depends on the key exchange alone, so the library-built rogue
		// holds the same secret as the server even when it leaves messages out of its flight.
		rcfg := sc.c
		rcfg.EMS = 2
		c, err := w.NewEndpoint(p, true, world.ClientAddr, world.ServerAddr, rcfg)
		if err != nil {
			o.Skip = true
			return
		}
		s, err := w.NewEndpoint(p, false, world.ServerAddr, world.ClientAddr, scfg)
		if err != nil {
			o.Skip = true
			return
		}
		pr := &world.Pair{W: w, C: c, S: s, FirstID: w.EmittedCount()}
		ed := sc.editor
		if mode == "withheld" {
			drop := world.DropMessages("Flight 5", handshake.TypeFinished)
			prev := ed
			ed = func(e *world.Endpoint, st dtlsstate.Active, fl string, pkts []*dtlsflight.Packet) []*dtlsflight.Packet {
				if prev != nil {
					pkts = prev(e, st, fl, pkts)
				}
				return drop(e, st, fl, pkts)
			}
		}
		if ed != nil {
			c.SetFlightEditor(ed)
		}
		c.StartHandshake()
		w.Settle()
		s.StartHandshake()
		w.Settle()
		n := world.NewNet(w, world.ClientAddr, nil)
		if mode == "withheld" {
			_ = n.Pump(900*time.Millisecond, pr.BothDone) // before any retransmission: the first attempt is pending
		} else {
			_ = n.Pump(25*time.Second, pr.BothDone)
			n.Flush()
		}
		first := "refused"
		if s.HS.OK() {
			first = "established"
		} else if !s.HS.Done() {
			first = "pending"
		}
		sid := serverHelloSessionID(w, world.ServerAddr)
		entries, _ := refimpl.ParseKeyLog(strings.NewReader(c.KeyLog.String()))
		var secret []byte
		for _, e := range entries {
			if e.Label == "CLIENT_RANDOM" {
				secret = e.Secret
			}
		}
		o.Counters = map[string]int{"second_attempt_first_" + first: 1}
		if len(sid) == 0 || len(secret) == 0 {
			// the first attempt never got far enough for the attacker to learn a session
			o.Class = fmt.Sprintf("second/%s/first=%s/nothing-learned", mode, first)
			o.NonTrivial = false
			pr.CloseAll()
			return
		}
		stored := len(store.Snapshot())
		ccfg := rcfg
		ccfg.Store = &plantedStore{s: dtls.Session{ID: sid, Secret: secret}}
		const c2, s2 = world.Addr("10.0.0.5:5555"), world.Addr("10.0.0.6:6666")
		rc, err := w.NewEndpoint(p, true, c2, s2, ccfg)
		if err != nil {
			o.Skip = true
			pr.CloseAll()
			return
		}
		hs, err := w.NewEndpoint(p, false, s2, c2, scfg)
		if err != nil {
			o.Skip = true
			pr.CloseAll()
			return
		}
		if sc.editor != nil {
			rc.SetFlightEditor(sc.editor)
		}
		pr2 := &world.Pair{W: w, C: rc, S: hs, FirstID: w.EmittedCount()}
		rc.StartHandshake()
		w.Settle()
		hs.StartHandshake()
		w.Settle()
		_ = n.Pump(25*time.Second, pr2.BothDone)
		n.Flush()
		established := hs.HS.OK() || hs.Snapshot().Established
		var got []byte
		if established && rc.HS.OK() {
			wr := w.Go("rogue.Write", func(*world.Op) error { _, e := rc.Conn.Write([]byte("rogue-data")); return e })
			_ = n.Pump(2*time.Second, wr.Done)
			n.Flush()
			_ = hs.Conn.SetReadDeadline(time.Now().Add(50 * time.Millisecond))
			rd := w.Go("honest.Read", func(op *world.Op) error {
				b := make([]byte, 256)
				k, e := hs.Conn.Read(b)
				op.Set(k, append([]byte(nil), b[:k]...))
				return e
			})
			w.Sleep(60 * time.Millisecond)
			if rd.Done() {
				got = rd.Data
			}
		}
		o.NonTrivial = true
		res := "refused"
		if established {
			res = "established"
		}
		o.Class = fmt.Sprintf("second/%s/first=%s/server-store-entries=%d/%s", mode, first, stored, res)
		if established {
			o.Key = "second-attempt-resumes-unauthenticated-session:" + mode
			o.Violation = fmt.Sprintf("scenario=%s second attempt (%s): the peer still lacks the required credential (%s) but the honest server reported an established connection on its second attempt: it resumed session %x, which the server stored during the first attempt (first attempt: %s; server store held %d entries) before the peer had proved anything; data delivered to the application=%q",
				sc.name, mode, sc.devKind, sid, first, stored, got)
		}
		o.Sample = map[string]any{"scenario": sc.name, "mode": mode, "first_attempt": first, "server_store_entries_after_first": stored, "second_attempt": res}
		pr2.CloseAll()
		pr.CloseAll()
	})
	return o
}

// c03RogueACK: a DTLS 1.3 peer that completes the key exchange but never sends its final flight
// (Certificate / CertificateVerify / Finished): instead it acknowledges the server's whole flight with an
// ACK record sealed under its handshake keys (forged with the reference record layer from the client's
// handshake secret). Whatever the client-authentication policy, a server that has not seen the client's
// Finished must not report an established connection, and must not hand application data to such a peer.
func c03RogueACK(t *testing.T, p *world.PKI, pol dtls.ClientAuthType, polName string, extra int, seed uint64) run.Outcome {
	var o run.Outcome
	world.Run(t, seed, func(w *world.World) {
		ccfg := world.Cfg{MinV: 13, MaxV: 13}
		scfg := world.Cfg{MinV: 13, MaxV: 13, SkipHelloVerify: true, ClientAuth: pol}
		c, err := w.NewEndpoint(p, true, world.ClientAddr, world.ServerAddr, ccfg)
		if err != nil {
			o.Skip = true
			return
		}
		s, err := w.NewEndpoint(p, false, world.ServerAddr, world.ClientAddr, scfg)
		if err != nil {
			o.Skip = true
			return
		}
		pr := &world.Pair{W: w, C: c, S: s, FirstID: w.EmittedCount()}
		c.StartHandshake()
		w.Settle()
		s.StartHandshake()
		w.Settle()
		// deliver the ClientHello flight and the server's flight; withhold every protected client datagram
		for i := 0; i < 60; i++ {
			w.Settle()
			d := w.Head()
			if d == nil {
				break
			}
			w.Take(d)
			if d.Src == world.ClientAddr {
				if recs, _ := world.ParseDatagram(d.Data, 0); len(recs) > 0 && recs[0].Unified {
					continue // the rogue never sends its final flight (nor the library client's ACKs)
				}
			}
			w.Push(d.Src, d.Dst, d.Data)
		}
		w.Settle()
		sec, ok := pr.GetSecrets()
		if !ok || !sec.V13 || len(sec.HSClient) == 0 {
			o.Skip = true
			o.Class = "rogue-ack/no-handshake-secret"
			pr.CloseAll()
			return
		}
		// the record numbers of the server's protected flight (epoch 2)
		n := 0
		for _, d := range w.Emitted() {
			if d.Src != world.ServerAddr {
				continue
			}
			recs, _ := world.ParseDatagram(d.Data, 0)
			for _, r := range recs {
				if r.Unified && r.Epoch&3 == 2 {
					n++
				}
			}
		}
		var body []byte
		cnt := n + extra
		body = append(body, byte((cnt*16)>>8), byte(cnt*16))
		for i := 0; i < cnt; i++ {
			var rn [16]byte
			rn[7] = 2 // epoch 2
			rn[14], rn[15] = byte(i>>8), byte(i)
			body = append(body, rn[:]...)
		}
		keys := refimpl.TrafficKeys13(sec.Suite, sec.HSClient)
		for seq := uint64(0); seq < 2; seq++ {
			rec, err := refimpl.Seal13(sec.Suite, keys, refimpl.Record13{Type: 26, Epoch: 2, Seq: seq, Seq16: true, WithLength: true, Payload: body})
			if err != nil {
				o.Skip = true
				pr.CloseAll()
				return
			}
			w.Push(world.ClientAddr, world.ServerAddr, rec)
			w.Settle()
		}
		w.Sleep(500 * time.Millisecond)
		established := s.HS.OK() || s.Snapshot().Established
		leaked := ""
		if established {
			wr := w.Go("server.Write", func(*world.Op) error { _, e := s.Conn.Write([]byte("server-secret-data")); return e })
			w.Settle()
			if d, e := wr.Result(); d && e == nil {
				leaked = "; server.Write succeeded towards the unauthenticated peer"
			}
		}
		o.NonTrivial = n > 0
		res := "refused"
		if established {
			res = "established"
		}
		o.Class = fmt.Sprintf("rogue-ack/%s/%s", polName, res)
		if established {
			o.Key = "dtls13-server-established-by-ack-without-client-finished"
			o.Violation = fmt.Sprintf("scenario=13/rogue-client/policy=%s/ack-instead-of-final-flight (ACK covering %d record numbers of epoch 2, %d of them real): the server reported an established connection although the client's Finished (and certificate) never arrived%s", polName, cnt, n, leaked)
		}
		o.Sample = map[string]any{"scenario": "13/rogue-client/policy=" + polName + "/ack-instead-of-final-flight", "acked_records": cnt, "server": res}
		pr.CloseAll()
	})
	return o
}

func c03Key(sc scen) string {
	if sc.v13 && !sc.rogueClient && strings.HasPrefix(sc.devKind, "no-certificate") {
		return "F5-dtls13-client-accepts-server-flight-without:" + sc.devKind
	}
	if sc.v13 && !sc.rogueClient && sc.devKind == "no-certificateverify" {
		return "F5-dtls13-client-accepts-server-flight-without:" + sc.devKind
	}
	return ""
}

func verdictName(v verdict) string {
	return [...]string{"must-fail", "may-complete", "must-complete", "unspecified"}[v]
}

func TestC03(t *testing.T) {
	env := run.GetEnv()
	p := world.GetPKI(t)
	scs := scenarios(p)
	k := 1
	if env.Thorough() {
		k = 2
	}
	masks := checks.EnumMasks(5, k, checks.AllFaultActions)
	var cases []run.Case
	for _, sc := range scs {
		for _, m := range masks {
			sc, m := sc, m
			cases = append(cases, run.Case{ID: sc.name + "/" + m.String(), Run: func(t *testing.T) run.Outcome { return c03Run(t, p, sc, m, env.Seed+1) }})
		}
	}
	for _, sc := range scs {
		if !sc.rogueClient || sc.v13 || sc.want != mustFail {
			continue
		}
		for _, mode := range []string{"refused", "withheld"} {
			sc, mode := sc, mode
			cases = append(cases, run.Case{ID: sc.name + "/second-attempt-" + mode, Run: func(t *testing.T) run.Outcome { return c03Second(t, p, sc, mode, env.Seed+1) }})
		}
	}
	for _, pc := range []struct {
		p dtls.ClientAuthType
		n string
	}{{dtls.NoClientCert, "NoClientCert"}, {dtls.RequestClientCert, "Request"}, {dtls.RequireAnyClientCert, "RequireAny"}, {dtls.VerifyClientCertIfGiven, "VerifyIfGiven"}, {dtls.RequireAndVerifyClientCert, "RequireAndVerify"}} {
		for _, extra := range []int{0, 4} {
			pc, extra := pc, extra
			cases = append(cases, run.Case{ID: fmt.Sprintf("13/rogue-client/policy=%s/ack-instead-of-final-flight/extra%d", pc.n, extra), Run: func(t *testing.T) run.Outcome { return c03RogueACK(t, p, pc.p, pc.n, extra, env.Seed+1) }})
		}
	}
	for _, cfg := range nocredConfigs() {
		cfg := cfg
		cases = append(cases, run.Case{ID: "12/rogue-server/no-credential/" + cfg.name, Run: func(t *testing.T) run.Outcome { return c03NoCred(t, p, cfg, env.Seed+1) }})
	}
	early := 0
	for _, sc := range scs {
		if sc.want != mustFail {
			continue
		}
		sc := sc
		early++
		cases = append(cases, run.Case{ID: sc.name + "/early-data", Run: func(t *testing.T) run.Outcome { return c03EarlyData(t, p, sc, env.Seed+1) }})
	}
	for _, cfg := range resumeClientConfigs() {
		cfg := cfg
		cases = append(cases, run.Case{ID: "12/rogue-client/resumes-without-secret/" + cfg.name, Run: func(t *testing.T) run.Outcome { return c03ResumeClient(t, p, cfg, env.Seed+1) }})
	}
	for _, cfg := range resumeEchoConfigs() {
		cfg := cfg
		cases = append(cases, run.Case{ID: "12/rogue-server/resumption-echo/" + cfg.name, Run: func(t *testing.T) run.Outcome { return c03ResumeEcho(t, p, cfg, env.Seed+1) }})
	}
	run.Main(t, "C03", cases, map[string]any{"resumption_echo_server_configs": len(resumeEchoConfigs()), "early_data_scenarios": early, "scenarios": len(scs), "masks": len(masks), "max_faults": k, "N_per_direction": 5, "credential_less_server_configs": len(nocredConfigs())})
}
