package c03

import (
	"crypto"
	"crypto/ecdsa"
	"crypto/tls"
	"fmt"
	"strings"
	"testing"
	"time"

	dtls "github.com/pion/dtls/v3"
	"github.com/pion/dtls/v3/pkg/crypto/hash"
	"github.com/pion/dtls/v3/pkg/crypto/signature"
	"github.com/pion/dtls/v3/pkg/protocol/handshake"
	"github.com/pion/dtls/v3/zzverif/checks"
	"github.com/pion/dtls/v3/zzverif/run"
	"github.com/pion/dtls/v3/zzverif/world"
)

// C03 — peer authentication. Enumerated: the finite catalogue (version x honest side's policy /
// verification setting x credential type x every single deviation of an otherwise competent rogue
// peer) x every delivery fault mask with <=1 fault. Oracle: an independent policy table says whether
// the honest side may complete; where it may not, the honest side never reports an established
// connection and never delivers application data. Positive controls (deviation off) must complete.

type verdict int

const (
	mustFail verdict = iota
	mayComplete
	mustComplete // positive control
	unspecified  // the policy text does not decide; reported for information only
)

type scen struct {
	name        string
	v13         bool
	rogueClient bool // which side is the rogue (the other is honest)
	c, s        world.Cfg
	editor      world.FlightEdit
	want        verdict
	devKind     string
}

var pskGood = []byte{1, 2, 3, 4, 5, 6, 7, 8}
var pskBad = []byte{1, 2, 3, 4, 5, 6, 7, 9}

func signerOf(c tls.Certificate) crypto.Signer { return c.PrivateKey.(crypto.Signer) }

func v(c world.Cfg, v13 bool) world.Cfg {
	if v13 {
		c.MinV, c.MaxV = 13, 13
	}
	return c
}

func scenarios(p *world.PKI) []scen {
	var out []scen
	// ---------------- rogue SERVER, honest client ----------------
	type srvCred struct {
		name  string
		cert  tls.Certificate
		other tls.Certificate // another valid identity (for substitution)
		suite []dtls.CipherSuiteID
	}
	creds := []srvCred{
		{"ecdsa", p.ServerECDSA, p.ServerECDSA2, nil},
		{"rsa", p.ServerRSA, p.ServerECDSA, []dtls.CipherSuiteID{dtls.TLS_ECDHE_RSA_WITH_AES_128_GCM_SHA256}},
		{"ed25519", p.ServerEd25519, p.ServerECDSA, nil},
	}
	for _, v13 := range []bool{false, true} {
		ver := "12"
		srvFlight := "Flight 4"
		if v13 {
			ver = "13"
		}
		for _, cr := range creds {
			if v13 && cr.name != "ecdsa" {
				continue // DTLS 1.3 with RSA/Ed25519 server keys does not complete even honestly on this tree (see C11 findings)
			}
			for _, verify := range []string{"", "skip"} {
				chainChecked := verify == ""
				base := func() (world.Cfg, world.Cfg) {
					c := v(world.Cfg{Verify: verify}, v13)
					s := v(world.Cfg{Cert: &cr.cert}, v13)
					if cr.suite != nil && !v13 {
						c.Suites, s.Suites = cr.suite, cr.suite
					}
					return c, s
				}
				add := func(dev string, want verdict, mod func(c, s *world.Cfg), ed world.FlightEdit) {
					c, s := base()
					if mod != nil {
						mod(&c, &s)
					}
					out = append(out, scen{name: fmt.Sprintf("%s/rogue-server/%s/verify=%s/%s", ver, cr.name, orDefault(verify), dev), v13: v13, c: c, s: s, editor: ed, want: want, devKind: dev})
				}
				add("none(control)", mustComplete, nil, nil)
				chainVerdict := mustFail
				if !chainChecked {
					chainVerdict = mayComplete
				}
				if cr.name == "ecdsa" {
					add("wrong-ca", chainVerdict, func(c, s *world.Cfg) { s.Cert = &p.ServerWrongCA }, nil)
					add("wrong-name", chainVerdict, func(c, s *world.Cfg) { s.Cert = &p.ServerWrongName }, nil)
					add("expired", chainVerdict, func(c, s *world.Cfg) { s.Cert = &p.ServerExpired }, nil)
				}
				// valid chain A, but the handshake is signed with another key
				add("substituted-cert(sign-with-other-key)", mustFail, func(c, s *world.Cfg) {
					if cr.name == "ecdsa" {
						s.Cert = world.WithSigner(cr.cert, signerOf(cr.other))
					} else {
						// keep key type consistent with the suite: present ECDSA chain? no — present own chain, sign with a fresh key of the same kind is not available; use flip instead
						s.Cert = world.WithSigner(cr.cert, world.FlipSigner{Signer: signerOf(cr.cert)})
					}
				}, nil)
				add("signature-corrupted", mustFail, func(c, s *world.Cfg) { s.Cert = world.WithSigner(cr.cert, world.FlipSigner{Signer: signerOf(cr.cert)}) }, nil)
				add("signature-over-other-data", mustFail, func(c, s *world.Cfg) { s.Cert = world.WithSigner(cr.cert, world.StaleSigner{Signer: signerOf(cr.cert)}) }, nil)
				if !v13 && cr.name == "ecdsa" {
					// The attacker knows only the victim's certificate (public key): it claims a scheme without
					// prehash (Ed25519) for the ECDSA certificate and sends a signature forged for the empty digest.
					pub := cr.cert.Leaf.PublicKey.(*ecdsa.PublicKey)
					forged := func() []byte { b, _ := world.ForgeZeroDigestECDSA(pub); return b }
					add("scheme-confusion-forgery(public-key-only)", mustFail, func(c, s *world.Cfg) {
						s.Cert = world.WithSigner(cr.cert, world.PublicOnlySigner{Pub: pub})
					}, world.ClaimScheme(srvFlight, hash.Ed25519, signature.Ed25519, forged))
				}
				if !v13 {
					add("no-certificate-message", mustFail, nil, world.DropMessages(srvFlight, handshake.TypeCertificate))
					add("no-server-key-exchange", mustFail, nil, world.DropMessages(srvFlight, handshake.TypeServerKeyExchange))
				} else {
					add("no-certificate-and-certificateverify", mustFail, nil, world.DropMessages(srvFlight, handshake.TypeCertificate, handshake.TypeCertificateVerify))
					add("no-certificateverify", mustFail, nil, world.DropMessages(srvFlight, handshake.TypeCertificateVerify))
					add("no-certificate-message", mustFail, nil, world.DropMessages(srvFlight, handshake.TypeCertificate))
				}
			}
		}
	}
	// PSK: the peer must know the key (both directions)
	for _, suite := range []dtls.CipherSuiteID{dtls.TLS_PSK_WITH_AES_128_GCM_SHA256, dtls.TLS_PSK_WITH_AES_128_CBC_SHA256, dtls.TLS_ECDHE_PSK_WITH_AES_128_CBC_SHA256, dtls.TLS_PSK_WITH_CHACHA20_POLY1305_SHA256} {
		sn := fmt.Sprintf("%#04x", uint16(suite))
		mk := func(cpsk, spsk []byte) (world.Cfg, world.Cfg) {
			return world.Cfg{Cred: "psk", PSK: cpsk, Suites: []dtls.CipherSuiteID{suite}}, world.Cfg{Cred: "psk", PSK: spsk, Suites: []dtls.CipherSuiteID{suite}}
		}
		c, s := mk(pskGood, pskGood)
		out = append(out, scen{name: "12/psk/" + sn + "/none(control)", c: c, s: s, want: mustComplete, devKind: "none(control)"})
		c, s = mk(pskGood, pskBad)
		out = append(out, scen{name: "12/rogue-server/psk/" + sn + "/wrong-psk", c: c, s: s, want: mustFail, devKind: "wrong-psk"})
		c, s = mk(pskBad, pskGood)
		out = append(out, scen{name: "12/rogue-client/psk/" + sn + "/wrong-psk", rogueClient: true, c: c, s: s, want: mustFail, devKind: "wrong-psk"})
	}

	// ---------------- rogue CLIENT, honest server with policy ----------------
	policies := []dtls.ClientAuthType{dtls.NoClientCert, dtls.RequestClientCert, dtls.RequireAnyClientCert, dtls.VerifyClientCertIfGiven, dtls.RequireAndVerifyClientCert}
	pname := map[dtls.ClientAuthType]string{dtls.NoClientCert: "NoClientCert", dtls.RequestClientCert: "Request", dtls.RequireAnyClientCert: "RequireAny", dtls.VerifyClientCertIfGiven: "VerifyIfGiven", dtls.RequireAndVerifyClientCert: "RequireAndVerify"}
	type cliCred struct {
		name  string
		cert  tls.Certificate
		other tls.Certificate
	}
	ccreds := []cliCred{{"ecdsa", p.ClientECDSA, p.ClientECDSA2}, {"rsa", p.ClientRSA, p.ClientECDSA}, {"ed25519", p.ClientEd25519, p.ClientECDSA}}
	for _, v13 := range []bool{false, true} {
		ver := "12"
		cliFlight := "Flight 5"
		if v13 {
			ver = "13"
		}
		for _, pol := range policies {
			for _, cr := range ccreds {
				if v13 && cr.name != "ecdsa" {
					continue
				}
				add := func(dev string, want verdict, mod func(c, s *world.Cfg), ed world.FlightEdit) {
					c := v(world.Cfg{Cert: &cr.cert}, v13)
					s := v(world.Cfg{ClientAuth: pol, SkipHelloVerify: v13}, v13)
					if mod != nil {
						mod(&c, &s)
					}
					out = append(out, scen{name: fmt.Sprintf("%s/rogue-client/%s/policy=%s/%s", ver, cr.name, pname[pol], dev), v13: v13, rogueClient: true, c: c, s: s, editor: ed, want: want, devKind: dev})
				}
				requested := pol != dtls.NoClientCert
				required := pol == dtls.RequireAnyClientCert || pol == dtls.RequireAndVerifyClientCert
				verified := pol == dtls.VerifyClientCertIfGiven || pol == dtls.RequireAndVerifyClientCert
				add("none(control)", mustComplete, nil, nil)
				if cr.name == "ecdsa" {
					w := mayComplete
					if required {
						w = mustFail
					}
					add("no-certificate", w, func(c, s *world.Cfg) { c.Cert = nil; c.Cred = "none" }, nil)
					chain := mayComplete
					if verified {
						chain = mustFail
					}
					// The library client would not offer a certificate whose issuer is not among the CAs named in the
					// CertificateRequest; a rogue presents it anyway (GetClientCertificate callback).
					force := func(cert *tls.Certificate) dtls.ClientOption {
						return dtls.WithGetClientCertificate(func(*dtls.CertificateRequestInfo) (*tls.Certificate, error) { return cert, nil })
					}
					add("wrong-ca", chain, func(c, s *world.Cfg) {
						c.Cert = nil
						c.Cred = "none"
						c.ExtraClient = []dtls.ClientOption{force(&p.ClientWrongCA)}
					}, nil)
					add("expired", chain, func(c, s *world.Cfg) {
						c.Cert = nil
						c.Cred = "none"
						c.ExtraClient = []dtls.ClientOption{force(&p.ClientExpired)}
					}, nil)
				}
				// proof-of-possession deviations
				pop := mustFail
				switch {
				case !requested:
					pop = mayComplete // nothing is requested, nothing is sent
				case pol == dtls.RequestClientCert:
					pop = unspecified
				}
				add("certificate-without-certificateverify", pop, nil, world.DropMessages(cliFlight, handshake.TypeCertificateVerify))
				add("certificateverify-by-other-key", pop, func(c, s *world.Cfg) {
					if cr.name == "ecdsa" {
						c.Cert = world.WithSigner(cr.cert, signerOf(cr.other))
					} else {
						c.Cert = world.WithSigner(cr.cert, world.FlipSigner{Signer: signerOf(cr.cert)})
					}
				}, nil)
				if !v13 && cr.name == "ecdsa" {
					pub := cr.cert.Leaf.PublicKey.(*ecdsa.PublicKey)
					forged := func() []byte { b, _ := world.ForgeZeroDigestECDSA(pub); return b }
					add("scheme-confusion-forgery(public-key-only)", pop, func(c, s *world.Cfg) {
						c.Cert = world.WithSigner(cr.cert, world.PublicOnlySigner{Pub: pub})
					}, world.ClaimScheme(cliFlight, hash.Ed25519, signature.Ed25519, forged))
				}
				add("certificateverify-corrupted", pop, func(c, s *world.Cfg) { c.Cert = world.WithSigner(cr.cert, world.FlipSigner{Signer: signerOf(cr.cert)}) }, nil)
				add("certificateverify-over-stale-transcript", pop, func(c, s *world.Cfg) { c.Cert = world.WithSigner(cr.cert, world.StaleSigner{Signer: signerOf(cr.cert)}) }, nil)
			}
		}
	}
	return out
}

func orDefault(s string) string {
	if s == "" {
		return "roots+name"
	}
	return s
}

func c03Run(t *testing.T, p *world.PKI, sc scen, m world.Mask, seed uint64) run.Outcome {
	var o run.Outcome
	world.Run(t, seed, func(w *world.World) {
		c, err := w.NewEndpoint(p, true, world.ClientAddr, world.ServerAddr, sc.c)
		if err != nil {
			o.Skip = true
			return
		}
		s, err := w.NewEndpoint(p, false, world.ServerAddr, world.ClientAddr, sc.s)
		if err != nil {
			o.Skip = true
			return
		}
		pr := &world.Pair{W: w, C: c, S: s, FirstID: w.EmittedCount()}
		rogue, honest := s, c
		if sc.rogueClient {
			rogue, honest = c, s
		}
		if sc.editor != nil {
			rogue.SetFlightEditor(sc.editor)
		}
		c.StartHandshake()
		w.Settle()
		s.StartHandshake()
		w.Settle()
		n := world.NewNet(w, world.ClientAddr, m)
		tr := pr.Trace(n)
		hz := 25*time.Second + time.Duration(len(m))*world.HoldCap
		_ = n.Pump(hz, pr.BothDone)
		n.ClearFaults()
		n.Flush()
		o.States, o.Transitions = tr.States, tr.Trans
		hdone, herr := honest.HS.Result()
		hsnap := honest.Snapshot()
		established := (hdone && herr == nil) || hsnap.Established
		// If the rogue believes it is connected, let it talk: nothing may reach the honest application.
		var got []byte
		if established || rogue.HS.OK() {
			if rogue.HS.OK() {
				wr := w.Go("rogue.Write", func(*world.Op) error { _, e := rogue.Conn.Write([]byte("rogue-data")); return e })
				_ = n.Pump(2*time.Second, wr.Done)
				n.Flush()
			}
			if established {
				_ = honest.Conn.SetReadDeadline(time.Now().Add(50 * time.Millisecond))
				rd := w.Go("honest.Read", func(op *world.Op) error {
					b := make([]byte, 256)
					k, e := honest.Conn.Read(b)
					op.Set(k, append([]byte(nil), b[:k]...))
					return e
				})
				w.Sleep(60 * time.Millisecond)
				if rd.Done() {
					got = rd.Data
				}
			}
		}
		o.NonTrivial = true
		res := "refused"
		if established {
			res = "established"
		}
		o.Class = fmt.Sprintf("%s/%s/%s", verdictName(sc.want), sc.devKind, res)
		switch sc.want {
		case mustFail:
			if established {
				o.Violation = fmt.Sprintf("scenario=%s mask=%s: the honest %s reported an established connection although the peer lacks the required credential (%s); honest handshake result=%v; data delivered to the application=%q",
					sc.name, m, honest.Name, sc.devKind, honest.HS, got)
				o.Key = c03Key(sc)
			} else if len(got) > 0 {
				o.Violation = fmt.Sprintf("scenario=%s mask=%s: application data %q delivered on a connection that must not be established", sc.name, m, got)
			}
		case mustComplete:
			if !pr.BothOK() {
				// non-vacuity control: with the deviation switched off the same scenario completes (C02 owns liveness under faults)
				if len(m) == 0 {
					o.Violation = fmt.Sprintf("scenario=%s mask=none: positive control did not complete: client=%v server=%v", sc.name, c.HS, s.HS)
					o.Key = "positive-control-failed:" + sc.name
				}
			}
		}
		o.Sample = map[string]any{"scenario": sc.name, "mask": m.String(), "policy_verdict": verdictName(sc.want), "honest_side": res}
		o.Counters = map[string]int{"verdict_" + verdictName(sc.want) + "_" + res: 1}
		pr.CloseAll()
	})
	return o
}

func c03Key(sc scen) string {
	if sc.v13 && !sc.rogueClient && strings.HasPrefix(sc.devKind, "no-certificate") {
		return "F5-dtls13-client-accepts-server-flight-without:" + sc.devKind
	}
	if sc.v13 && !sc.rogueClient && sc.devKind == "no-certificateverify" {
		return "F5-dtls13-client-accepts-server-flight-without:" + sc.devKind
	}
	return ""
}

func verdictName(v verdict) string {
	return [...]string{"must-fail", "may-complete", "must-complete", "unspecified"}[v]
}

func TestC03(t *testing.T) {
	env := run.GetEnv()
	p := world.GetPKI(t)
	scs := scenarios(p)
	k := 1
	if env.Thorough() {
		k = 2
	}
	masks := checks.EnumMasks(5, k, checks.AllFaultActions)
	var cases []run.Case
	for _, sc := range scs {
		for _, m := range masks {
			sc, m := sc, m
			cases = append(cases, run.Case{ID: sc.name + "/" + m.String(), Run: func(t *testing.T) run.Outcome { return c03Run(t, p, sc, m, env.Seed+1) }})
		}
	}
	run.Main(t, "C03", cases, map[string]any{"scenarios": len(scs), "masks": len(masks), "max_faults": k, "N_per_direction": 5})
}
