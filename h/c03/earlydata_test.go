package c03

import (
	"fmt"
	"testing"

	"github.com/pion/dtls/v3/zzverif/refimpl"
	"github.com/pion/dtls/v3/zzverif/run"
	"github.com/pion/dtls/v3/zzverif/world"
)

// Early application data from a peer that will be refused. The rogue of a must-fail scenario completes the key
// exchange honestly, so it holds record keys; right behind the records of its last flight — in the same datagram
// — it sends one application-data record protected with those keys (DTLS 1.2: epoch 1; DTLS 1.3: the
// handshake epoch). On the honest side the application has a Read pending from the start (a second goroutine
// next to the one inside Handshake), which is where such bytes would surface if anything let them through
// before the handshake verdict. Oracle: the property's last clause — a peer lacking the credential never
// obtains "any application data": the pending Read never returns a byte, whatever the handshake call reports.
//
// The network is reliable and no fake time passes (a call queued behind the handshake waits on a real mutex).
func c03EarlyData(t *testing.T, p *world.PKI, sc scen, seed uint64) run.Outcome {
	var o run.Outcome
	world.Run(t, seed, func(w *world.World) {
		c, err := w.NewEndpoint(p, true, world.ClientAddr, world.ServerAddr, sc.c)
		if err != nil {
			o.Skip = true
			return
		}
		s, err := w.NewEndpoint(p, false, world.ServerAddr, world.ClientAddr, sc.s)
		if err != nil {
			o.Skip = true
			return
		}
		pr := &world.Pair{W: w, C: c, S: s, FirstID: w.EmittedCount()}
		rogue, honest := s, c
		if sc.rogueClient {
			rogue, honest = c, s
		}
		if sc.editor != nil {
			rogue.SetFlightEditor(sc.editor)
		}
		c.StartHandshake()
		w.Settle()
		s.StartHandshake()
		w.Settle()
		payload := []byte("early data from a peer without the credential")
		var got []byte
		w.NoSkew = true
		rd := w.Go("honest.Read", func(op *world.Op) error {
			b := make([]byte, 256)
			k, e := honest.Conn.Read(b)
			got = append([]byte(nil), b[:k]...)
			return e
		})
		forge := func(data []byte) []byte {
			sec, ok := pr.GetSecrets()
			if !ok {
				return nil
			}
			cidLen := pr.CIDLenFor(rogue.Addr)
			recs, _ := world.ParseDatagram(data, cidLen)
			var last *world.Rec
			for i := range recs {
				if (recs[i].Unified && recs[i].Epoch == 2) || (!recs[i].Unified && recs[i].Epoch >= 1) {
					last = &recs[i]
				}
			}
			if last == nil {
				return nil
			}
			if sec.V13 {
				ts := sec.HSServer
				if sc.rogueClient {
					ts = sec.HSClient
				}
				if len(ts) == 0 {
					return nil
				}
				rec, serr := refimpl.Seal13(sec.Suite, refimpl.TrafficKeys13(sec.Suite, ts), refimpl.Record13{Type: world.CTAppData, Epoch: 2, Seq: 40,
					CID: last.CID, Seq16: true, WithLength: true, Payload: payload})
				if serr != nil {
					return nil
				}
				return rec
			}
			k := refimpl.KeyBlockFor(sec.Suite, sec.Master, sec.ClientRandom, sec.ServerRandom).Writer(sc.rogueClient)
			rec, serr := refimpl.Seal12(sec.Suite, k, refimpl.Record12{Type: world.CTAppData, Epoch: last.Epoch, Seq: last.Seq + 1,
				WrapCID: last.Type == world.CTCID, CID: last.CID, Payload: payload})
			if serr != nil {
				return nil
			}
			return rec
		}
		appended := 0
		for i := 0; i < 300; i++ {
			w.SettleLoose()
			d := w.Head()
			if d == nil {
				break
			}
			data := d.Data
			if d.Src == rogue.Addr {
				if a := forge(d.Data); a != nil {
					data = append(append([]byte(nil), d.Data...), a...)
					appended++
				}
			}
			w.Take(d)
			w.Push(d.Src, d.Dst, data)
		}
		w.SettleLoose()
		hdone, herr := honest.HS.Result()
		o.NonTrivial = appended > 0
		o.Class = fmt.Sprintf("%s/early-data appended=%v honest-hs-done=%v ok=%v read-returned=%v", verdictName(sc.want), appended > 0, hdone, hdone && herr == nil, rd.Done())
		if rd.Done() {
			if _, rerr := rd.Result(); rerr == nil && len(got) > 0 {
				o.Violation = fmt.Sprintf("scenario=%s/early-data: the honest %s's pending Read returned %q (no error) — application data of a peer that lacks the required credential (%s); honest handshake result: done=%v err=%v",
					sc.name, honest.Name, got, sc.devKind, hdone, herr)
				o.Key = "early-data-delivered:" + c03Key(sc)
				if hdone && herr == nil {
					// the cause is the establishment itself (judged, and keyed, by the main family)
					o.Key = c03Key(sc)
				}
			}
		}
		o.Sample = map[string]any{"scenario": sc.name + "/early-data", "class": o.Class}
		// shut down without the strict settle: a call may still be queued on the handshake mutex
		_ = w.Go("client.Close", func(*world.Op) error { return c.Conn.Close() })
		_ = w.Go("server.Close", func(*world.Op) error { return s.Conn.Close() })
		w.SettleLoose()
		for _, d := range w.InFlight() {
			w.Take(d)
		}
		w.SettleLoose()
		w.NoSkew = false
		if !world.MutexBlocked() {
			w.Settle()
		}
	})
	return o
}
