package c03

import (
	"crypto/sha256"
	"fmt"
	"slices"
	"testing"
	"time"

	dtls "github.com/pion/dtls/v3"
	"github.com/pion/dtls/v3/internal/ciphersuite"
	"github.com/pion/dtls/v3/pkg/crypto/elliptic"
	"github.com/pion/dtls/v3/pkg/crypto/prf"
	"github.com/pion/dtls/v3/pkg/protocol"
	"github.com/pion/dtls/v3/pkg/protocol/handshake"
	"github.com/pion/dtls/v3/pkg/protocol/recordlayer"
	"github.com/pion/dtls/v3/zzverif/run"
	"github.com/pion/dtls/v3/zzverif/world"
)

// A server that owns NO credential at all - no certificate, no pre-shared key - written by hand on top of
// the library's codecs and record protection (the attacker's tools, never an oracle). It answers any
// ClientHello that lists TLS_ECDHE_PSK_WITH_AES_128_CBC_SHA256 by selecting that suite, sends an unsigned
// ECDHE ServerKeyExchange with an empty identity hint and completes the handshake with the PLAIN ECDH shared
// secret as premaster secret (what an endpoint without a PSK callback would compute). An honest client
// whose policy is certificate authentication and that holds no PSK must never complete with it: the
// library's configuration filter removes PSK suites from such a client's list, so the rogue's selection is a
// suite the client did not offer.
//
// Honest client configurations: explicit suite lists that name the ECDHE_PSK suite before / after a
// certificate suite, or alone next to two certificate suites; verification with roots + name or skipped.

type nocredResult struct {
	offered      bool // the ClientHello listed the ECDHE_PSK suite
	finishedSent bool
	appData      []byte
	note         string
}

func rogueNoCredServer(w *world.World, pc *world.MemConn, res *nocredResult) error {
	fail := func(f string, a ...any) error { res.note = fmt.Sprintf(f, a...); return nil }
	buf := make([]byte, 8192)
	read := func() ([][]byte, error) {
		_ = pc.SetReadDeadline(time.Now().Add(20 * time.Second))
		n, _, err := pc.ReadFrom(buf)
		if err != nil {
			return nil, err
		}
		return recordlayer.UnpackDatagram(append([]byte{}, buf[:n]...))
	}
	peer := world.ClientAddr
	const suiteID = uint16(dtls.TLS_ECDHE_PSK_WITH_AES_128_CBC_SHA256)

	recs, err := read()
	if err != nil || len(recs) == 0 {
		return fail("read ClientHello: %v", err)
	}
	chRec := &recordlayer.RecordLayer{}
	if err = chRec.Unmarshal(recs[0]); err != nil {
		return fail("parse ClientHello record: %v", err)
	}
	hs, ok := chRec.Content.(*handshake.Handshake)
	if !ok {
		return fail("first record is not a handshake record")
	}
	ch, ok := hs.Message.(*handshake.MessageClientHello)
	if !ok {
		return fail("first message is not a ClientHello")
	}
	res.offered = slices.Contains(ch.CipherSuiteIDs, suiteID)
	transcript := append([]byte{}, recs[0][recordlayer.FixedHeaderSize:]...)

	kp, err := elliptic.GenerateKeypair(elliptic.X25519)
	if err != nil {
		return fail("keypair: %v", err)
	}
	var srvRandom handshake.Random
	if err = srvRandom.Populate(); err != nil {
		return fail("random: %v", err)
	}
	sid := suiteID
	flight := []handshake.Message{
		&handshake.MessageServerHello{Version: protocol.Version1_2, Random: srvRandom, CipherSuiteID: &sid, CompressionMethod: &protocol.CompressionMethod{}},
		&handshake.MessageServerKeyExchange{IdentityHint: []byte{}, EllipticCurveType: elliptic.CurveTypeNamedCurve, NamedCurve: elliptic.X25519, PublicKey: kp.PublicKey},
		&handshake.MessageServerHelloDone{},
	}
	var dg []byte
	var rseq uint64
	for i, m := range flight {
		h := &handshake.Handshake{Header: handshake.Header{MessageSequence: uint16(i)}, Message: m}
		raw, merr := h.Marshal()
		if merr != nil {
			return fail("marshal flight message %d: %v", i, merr)
		}
		transcript = append(transcript, raw...)
		r := &recordlayer.RecordLayer{Header: recordlayer.Header{Version: protocol.Version1_2, SequenceNumber: rseq}, Content: h}
		rseq++
		rr, merr := r.Marshal()
		if merr != nil {
			return fail("marshal flight record %d: %v", i, merr)
		}
		dg = append(dg, rr...)
	}
	if _, err = pc.WriteTo(dg, peer); err != nil {
		return fail("write flight: %v", err)
	}

	var clientPub, protFin []byte
	for clientPub == nil || protFin == nil {
		recs, err = read()
		if err != nil {
			return fail("read the client's answer: %v", err)
		}
		for _, raw := range recs {
			h := &recordlayer.Header{}
			if err = h.Unmarshal(raw); err != nil {
				return fail("record header: %v", err)
			}
			body := raw[recordlayer.FixedHeaderSize:]
			switch {
			case h.ContentType == protocol.ContentTypeAlert:
				return fail("the client refused: alert %x", body)
			case h.ContentType == protocol.ContentTypeHandshake && h.Epoch == 0:
				hh := &handshake.Header{}
				if err = hh.Unmarshal(body); err != nil {
					return fail("handshake header: %v", err)
				}
				if hh.Type != handshake.TypeClientKeyExchange || clientPub != nil {
					continue
				}
				kx := body[handshake.HeaderLength:]
				if len(kx) < 1 || int(kx[0]) != len(kx)-1 {
					return fail("ClientKeyExchange is not a bare ECDH public key: %x", kx)
				}
				clientPub = kx[1:]
				transcript = append(transcript, body...)
			case h.ContentType == protocol.ContentTypeHandshake && h.Epoch == 1:
				protFin = raw
			}
		}
	}
	cr, sr := ch.Random.MarshalFixed(), srvRandom.MarshalFixed()
	pre, err := prf.PreMasterSecret(clientPub, kp.PrivateKey, elliptic.X25519)
	if err != nil {
		return fail("premaster: %v", err)
	}
	ms, err := prf.MasterSecret(pre, cr[:], sr[:], sha256.New)
	if err != nil {
		return fail("master secret: %v", err)
	}
	suite := ciphersuite.NewTLSEcdhePskWithAes128CbcSha256()
	if err = suite.Init(ms, cr[:], sr[:], false); err != nil {
		return fail("cipher suite: %v", err)
	}
	fh := recordlayer.Header{}
	if err = fh.Unmarshal(protFin); err != nil {
		return fail("client Finished header: %v", err)
	}
	cf, err := suite.Decrypt(fh, protFin)
	if err != nil {
		return fail("the client's Finished does not open under the plain-ECDH master secret: %v", err)
	}
	transcript = append(transcript, cf[recordlayer.FixedHeaderSize:]...)
	vd, err := prf.VerifyDataServer(ms, transcript, sha256.New)
	if err != nil {
		return fail("verify data: %v", err)
	}
	ccs := &recordlayer.RecordLayer{Header: recordlayer.Header{Version: protocol.Version1_2, SequenceNumber: rseq}, Content: &protocol.ChangeCipherSpec{}}
	rawCCS, err := ccs.Marshal()
	if err != nil {
		return fail("marshal ChangeCipherSpec: %v", err)
	}
	fin := &recordlayer.RecordLayer{Header: recordlayer.Header{Version: protocol.Version1_2, Epoch: 1},
		Content: &handshake.Handshake{Header: handshake.Header{MessageSequence: uint16(len(flight))}, Message: &handshake.MessageFinished{VerifyData: vd}}}
	rawFin, err := fin.Marshal()
	if err != nil {
		return fail("marshal Finished: %v", err)
	}
	if rawFin, err = suite.Encrypt(fin, rawFin); err != nil {
		return fail("encrypt Finished: %v", err)
	}
	if _, err = pc.WriteTo(append(rawCCS, rawFin...), peer); err != nil {
		return fail("write the last flight: %v", err)
	}
	res.finishedSent = true
	for {
		recs, err = read()
		if err != nil {
			return nil
		}
		for _, raw := range recs {
			h := recordlayer.Header{}
			if err = h.Unmarshal(raw); err != nil || h.Epoch != 1 || h.ContentType != protocol.ContentTypeApplicationData {
				continue
			}
			plain, derr := suite.Decrypt(h, raw)
			if derr != nil {
				return fail("decrypt application data: %v", derr)
			}
			res.appData = append([]byte(nil), plain[recordlayer.FixedHeaderSize:]...)
			return nil
		}
	}
}

type nocredCfg struct {
	name   string
	suites []dtls.CipherSuiteID
	verify string
}

func nocredConfigs() []nocredCfg {
	const (
		epsk = dtls.TLS_ECDHE_PSK_WITH_AES_128_CBC_SHA256
		egcm = dtls.TLS_ECDHE_ECDSA_WITH_AES_128_GCM_SHA256
		rgcm = dtls.TLS_ECDHE_RSA_WITH_AES_128_GCM_SHA256
		pgcm = dtls.TLS_PSK_WITH_AES_128_GCM_SHA256
	)
	lists := map[string][]dtls.CipherSuiteID{
		"cert,epsk": {egcm, epsk}, "epsk,cert": {epsk, egcm}, "cert,cert,epsk": {egcm, rgcm, epsk}, "cert,psk,epsk": {egcm, pgcm, epsk}, "epsk,psk,cert": {epsk, pgcm, egcm},
	}
	var out []nocredCfg
	for _, n := range []string{"cert,epsk", "epsk,cert", "cert,cert,epsk", "cert,psk,epsk", "epsk,psk,cert"} {
		for _, v := range []string{"", "skip"} {
			out = append(out, nocredCfg{name: fmt.Sprintf("suites=[%s]/verify=%s", n, orDefault(v)), suites: lists[n], verify: v})
		}
	}
	return out
}

func c03NoCred(t *testing.T, p *world.PKI, cfg nocredCfg, seed uint64) run.Outcome {
	var o run.Outcome
	world.Run(t, seed, func(w *world.World) {
		c, err := w.NewEndpoint(p, true, world.ClientAddr, world.ServerAddr, world.Cfg{Suites: cfg.suites, Verify: cfg.verify})
		if err != nil {
			// a list the library refuses outright is a refusal as well
			o.NonTrivial, o.Class = true, "mustFail/credential-less-server/config-refused"
			return
		}
		pc := w.NewConn(world.ServerAddr)
		var res nocredResult
		rogue := w.Go("rogue-nocred-server", func(*world.Op) error { return rogueNoCredServer(w, pc, &res) })
		c.StartHandshake()
		w.Settle()
		n := world.NewNet(w, world.ClientAddr, nil)
		_ = n.Pump(25*time.Second, func() bool { return c.HS.Done() && (res.finishedSent || rogue.Done()) })
		n.Flush()
		done, herr := c.HS.Result()
		established := (done && herr == nil) || c.Snapshot().Established
		if established {
			wr := w.Go("client.Write", func(*world.Op) error { _, e := c.Conn.Write([]byte("for the authenticated server only")); return e })
			_ = n.Pump(3*time.Second, func() bool { return wr.Done() && rogue.Done() })
			n.Flush()
		}
		_ = pc.Close()
		w.Settle()
		o.NonTrivial = true
		st := "refused"
		if established {
			st = "established"
		}
		o.Class = "mustFail/credential-less-server/" + st
		o.Counters = map[string]int{"verdict_mustFail_" + st: 1}
		if established {
			o.Key = "credential-less-server-established"
			o.Violation = fmt.Sprintf("scenario=12/rogue-server/no-credential/%s: the honest client (certificate policy, no PSK configured) reported an established connection with a server that owns neither a certificate nor a pre-shared key (unsigned ECDHE under TLS_ECDHE_PSK_WITH_AES_128_CBC_SHA256, plain ECDH premaster); ClientHello listed the PSK suite=%v; application data read by the rogue=%q; rogue: %s",
				cfg.name, res.offered, res.appData, res.note)
		} else if res.offered {
			o.Counters["clienthello_listed_psk_suite_without_psk"] = 1
		}
		o.Sample = map[string]any{"scenario": "12/rogue-server/no-credential/" + cfg.name, "honest_side": st, "clienthello_listed_psk_suite": res.offered, "rogue": res.note}
		_ = c.Conn.Close()
	})
	return o
}
