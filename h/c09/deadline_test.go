package c09

import (
	"fmt"
	"strings"
	"testing"
	"time"

	dtls "github.com/pion/dtls/v3"
	"github.com/pion/dtls/v3/zzverif/run"
	"github.com/pion/dtls/v3/zzverif/world"
)

// A write that the application's own write deadline cuts short although the datagram left. The transport takes
// the datagram (it is on the wire) and only then blocks; the connection's write deadline expires while the call
// is parked there, so Write reports a deadline error. An error from the transport — or a deadline — does not
// prove that the datagram stayed: the record number is spent. Afterwards: the deadline is cleared, the same
// connection writes again, and (DTLS 1.2) the connection is exported, resumed and writes once more. Every record
// of the sender, before and after the resume, is audited as one sequence.
func deadlineLateRun(t *testing.T, p *world.PKI, cc cfgCase, clientSends bool, export bool, seed uint64) run.Outcome {
	var o run.Outcome
	world.Run(t, seed, func(w *world.World) {
		pr, err := cc.v.Setup(w, p)
		if err != nil {
			o.Skip = true
			return
		}
		n := world.NewNet(w, world.ClientAddr, nil)
		if perr := n.Pump(30*time.Second, pr.BothDone); perr != nil || !pr.BothOK() {
			o.Skip = true
			pr.CloseAll()
			return
		}
		n.Flush()
		w.Sleep(50 * time.Millisecond)
		n.Flush()
		w.CIDLenHint = pr.CIDLenFor
		x := pr.S
		if clientSends {
			x = pr.C
		}
		dec := pr.NewDecoder()
		dec.Poll()
		write := func(e *world.Endpoint, tag string) error {
			op := w.Go("Write-"+tag, func(*world.Op) error { _, werr := e.Conn.Write([]byte("payload-" + tag)); return werr })
			_ = n.Pump(5*time.Second, op.Done)
			_, werr := op.Result()
			if !op.Done() {
				return world.ErrHorizon
			}
			return werr
		}
		_ = write(x, "first")
		st := x.PC.StallWriteAfterEmit(0)
		_ = x.Conn.SetWriteDeadline(time.Now().Add(40 * time.Millisecond))
		late := w.Go("Write-late", func(*world.Op) error { _, werr := x.Conn.Write([]byte("payload-cut-short-by-deadline")); return werr })
		w.Settle()
		w.Sleep(60 * time.Millisecond)
		w.Settle()
		x.PC.Unstall()
		_, lateErr := late.Result()
		_ = x.Conn.SetWriteDeadline(time.Time{})
		n.Flush()
		e2 := write(x, "second")
		cur := x
		resumed := false
		if export && !cc.v.V13 {
			if cs, ok := x.Conn.ConnectionState(); ok {
				if bin, merr := cs.MarshalBinary(); merr == nil {
					var st2 dtls.State
					if st2.UnmarshalBinary(bin) == nil {
						x.Detach()
						if nx, rerr := x.ResumeFrom(p, &st2); rerr == nil {
							hs := nx.StartResumedHandshake()
							_ = n.Pump(2*time.Second, hs.Done)
							cur, resumed = nx, true
						}
					}
				}
			}
		}
		e3 := write(cur, "third")
		n.Flush()
		recs := dec.Poll()
		var viol []string
		v, c := monitor(recs, x.Addr)
		if v != "" {
			viol = append(viol, v)
		}
		o.Counters = c
		o.NonTrivial = st.IsHit() && late.Done()
		o.Class = fmt.Sprintf("deadline-late stalled=%v how=%s late-err=%v second-ok=%v resumed=%v third-ok=%v", st.IsHit(), st.How(), lateErr != nil, e2 == nil, resumed, e3 == nil)
		if len(viol) > 0 {
			o.Violation = fmt.Sprintf("config=%s sender=%s export=%v: after a Write that its deadline cut short while the datagram had already left (Write returned %v): %s", cc.name, x.Name, export, lateErr, strings.Join(viol, "; "))
		}
		o.Sample = map[string]any{"config": cc.name, "sender": x.Name, "export": export, "class": o.Class}
		if cur != x {
			_ = cur.Conn.Close()
		}
		pr.CloseAll()
	})
	return o
}

func deadlineLateCases(p *world.PKI, thorough bool, seed uint64) []run.Case {
	var cases []run.Case
	for _, cc := range configs(thorough) {
		for _, clientSends := range []bool{true, false} {
			for _, export := range []bool{false, true} {
				if export && cc.v.V13 {
					continue
				}
				cc, clientSends, export := cc, clientSends, export
				side := "server"
				if clientSends {
					side = "client"
				}
				cases = append(cases, run.Case{ID: fmt.Sprintf("%s/%s/deadline-after-emit/export=%v", cc.name, side, export),
					Run: func(t *testing.T) run.Outcome { return deadlineLateRun(t, p, cc, clientSends, export, seed) }})
			}
		}
	}
	return cases
}
