package c09

import (
	"context"
	"errors"
	"fmt"
	"strings"
	"testing"
	"time"

	dtls "github.com/pion/dtls/v3"
	dtlsstate "github.com/pion/dtls/v3/internal/state"
	"github.com/pion/dtls/v3/zzverif/checks"
	"github.com/pion/dtls/v3/zzverif/run"
	"github.com/pion/dtls/v3/zzverif/world"
)

// C09 — nonce uniqueness: an (epoch, sequence number) pair is never emitted twice; per epoch the numbers
// strictly increase in emission order; a write fails rather than wrap at 2^48.
//
// Enumerated (E1): suite class x CID layout x version x sender side x every ordered selection of <=3
// concurrent operations from {Write a, Write b, Write c, peer retransmission arriving (final-flight
// resend), UpdateKeys (1.3), Close} all started at one quiescent point, x an optional emission hold
// (the h-th datagram of the burst is parked inside WriteTo while the endpoint owns its write lock and
// one more Write is queued behind it). Every emitted record of the whole execution (handshake included)
// is decoded with reference keys and fed to the monitor. Plus the 2^48 boundary.

type cfgCase struct {
	name string
	v    checks.Variant
}

func suiteVariant(name string, suite dtls.CipherSuiteID, psk bool, cid int, v13 bool) cfgCase {
	c, s := world.Cfg{CIDLen: cid}, world.Cfg{CIDLen: cid}
	if suite != 0 {
		c.Suites, s.Suites = []dtls.CipherSuiteID{suite}, []dtls.CipherSuiteID{suite}
	}
	if psk {
		c.Cred, s.Cred, c.PSK, s.PSK = "psk", "psk", []byte{9, 8, 7, 6}, []byte{9, 8, 7, 6}
	}
	if v13 {
		c.MinV, c.MaxV, s.MinV, s.MaxV = 13, 13, 13, 13
		s.SkipHelloVerify = true
	}
	return cfgCase{name: fmt.Sprintf("%s/cid%d", name, cid), v: checks.Variant{Name: name, C: c, S: s, V13: v13}}
}

func configs(thorough bool) []cfgCase {
	var out []cfgCase
	for _, cid := range []int{0, 4} {
		out = append(out,
			suiteVariant("12-gcm128", dtls.TLS_ECDHE_ECDSA_WITH_AES_128_GCM_SHA256, false, cid, false),
			suiteVariant("12-cbc", dtls.TLS_ECDHE_ECDSA_WITH_AES_256_CBC_SHA, false, cid, false),
			suiteVariant("12-chacha", dtls.TLS_ECDHE_ECDSA_WITH_CHACHA20_POLY1305_SHA256, false, cid, false),
			suiteVariant("12-psk-ccm8", dtls.TLS_PSK_WITH_AES_128_CCM_8, true, cid, false),
			suiteVariant("13-aes128gcm", dtls.TLS_AES_128_GCM_SHA256, false, cid, true),
		)
		if thorough {
			out = append(out,
				suiteVariant("12-gcm256", dtls.TLS_ECDHE_ECDSA_WITH_AES_256_GCM_SHA384, false, cid, false),
				suiteVariant("12-ccm", dtls.TLS_ECDHE_ECDSA_WITH_AES_128_CCM, false, cid, false),
				suiteVariant("12-psk-cbc", dtls.TLS_PSK_WITH_AES_128_CBC_SHA256, true, cid, false),
				suiteVariant("13-chacha", dtls.TLS_CHACHA20_POLY1305_SHA256, false, cid, true),
				suiteVariant("13-aes256gcm", dtls.TLS_AES_256_GCM_SHA384, false, cid, true),
			)
		}
	}
	return out
}

// mtuConfigs: handshakes whose flights span several datagrams (MTU 200 on both sides: a DTLS 1.3 server flight
// is about eleven datagrams and the client acknowledges parts of it under the handshake epoch before its own
// flight opens that epoch "for the first time"). Only the retransmission family runs on them.
func mtuConfigs() []cfgCase {
	var out []cfgCase
	for _, cid := range []int{0, 4} {
		for _, b := range []cfgCase{
			suiteVariant("12-gcm128-mtu200", dtls.TLS_ECDHE_ECDSA_WITH_AES_128_GCM_SHA256, false, cid, false),
			suiteVariant("13-aes128gcm-mtu200", dtls.TLS_AES_128_GCM_SHA256, false, cid, true),
			suiteVariant("13-aes128gcm-smtu400", dtls.TLS_AES_128_GCM_SHA256, false, cid, true),
		} {
			if strings.Contains(b.name, "smtu400") {
				b.v.S.MTU = 400
			} else {
				b.v.C.MTU, b.v.S.MTU = 200, 200
			}
			out = append(out, b)
		}
	}
	return out
}

type opKind byte

const (
	opWriteA opKind = 'a'
	opWriteB opKind = 'b'
	opWriteC opKind = 'c'
	opRetx   opKind = 'r' // a copy of the peer's final handshake datagram arrives
	opUpdate opKind = 'k' // UpdateKeys (1.3 only)
	opFail   opKind = 'f' // the transport fails this endpoint's next WriteTo (transient local send error); at most once per burst
	opLate   opKind = 'g' // the transport forwards this endpoint's next datagram and THEN reports an error (the error does not prove that the datagram stayed)
	opClose  opKind = 'x' // Close (close_notify); always last
)

// sequences enumerates every ordered selection of <= n distinct operations, Close only in last position.
func sequences(alpha []opKind, n int) []string {
	var out []string
	var rec func(cur []opKind)
	rec = func(cur []opKind) {
		if len(cur) > 0 {
			out = append(out, string(toBytes(cur)))
		}
		if len(cur) == n || (len(cur) > 0 && cur[len(cur)-1] == opClose) {
			return
		}
	next:
		for _, o := range alpha {
			for _, c := range cur {
				if c == o {
					continue next
				}
			}
			rec(append(append([]opKind(nil), cur...), o))
		}
	}
	rec(nil)
	return out
}

func toBytes(o []opKind) []byte {
	b := make([]byte, len(o))
	for i, x := range o {
		b[i] = byte(x)
	}
	return b
}

// monitor checks the emission-ordered record list of one sender.
func monitor(recs []world.Decoded, src world.Addr) (string, map[string]int) {
	last := map[uint16]uint64{}
	seen := map[uint16]bool{}
	cnt := map[string]int{}
	for _, r := range recs {
		if r.D.Src != src {
			continue
		}
		if r.Err != "" && !r.OK {
			cnt["undecodable"]++
			if r.Unified {
				cnt["undecodable_dtls13"]++
				return fmt.Sprintf("%s emitted a DTLS 1.3 record that opens under no reference generation, so its sequence number cannot be audited (datagram #%d record %d: %s)", src, r.D.ID, r.Index, r.Err), cnt
			}
		}
		cnt["records"]++
		if seen[r.Epoch] && r.Seq <= last[r.Epoch] {
			kind := "reused"
			if r.Seq < last[r.Epoch] {
				kind = "out of order"
			}
			return fmt.Sprintf("%s emitted (epoch %d, sequence %d) after sequence %d in the same epoch: %s (datagram #%d record %d)", src, r.Epoch, r.Seq, last[r.Epoch], kind, r.D.ID, r.Index), cnt
		}
		if r.Seq > (1<<48)-1 {
			return fmt.Sprintf("%s emitted sequence number %d beyond 2^48-1", src, r.Seq), cnt
		}
		seen[r.Epoch], last[r.Epoch] = true, r.Seq
	}
	return "", cnt
}

func c09Run(t *testing.T, p *world.PKI, cc cfgCase, clientSends bool, seq string, hold int, seed uint64) run.Outcome {
	var o run.Outcome
	world.Run(t, seed, func(w *world.World) {
		pr, err := cc.v.Setup(w, p)
		if err != nil {
			o.Skip = true
			return
		}
		n := world.NewNet(w, world.ClientAddr, nil)
		if err := n.Pump(20*time.Second, pr.BothDone); err != nil || !pr.BothOK() {
			o.Skip = true
			o.Class = "handshake-failed"
			return
		}
		n.Flush()
		dec := pr.NewDecoder()
		w.CIDLenHint = pr.CIDLenFor
		x, y := pr.S, pr.C
		if clientSends {
			x, y = pr.C, pr.S
		}
		// the peer's last handshake datagram (for the "peer retransmits" event)
		var peerLast []byte
		for _, d := range w.Emitted() {
			if d.Src == y.Addr && d.ID >= pr.FirstID {
				recs, _ := world.ParseDatagram(d.Data, pr.CIDLenFor(d.Src))
				for _, r := range recs {
					if (!r.Unified && r.Type == world.CTHandshake) || (r.Unified && r.Epoch == 2) || (!r.Unified && r.Type == world.CTCID) {
						peerLast = d.Data
					}
				}
			}
		}
		burstStart := w.EmittedCount()
		// optional emission hold
		hit, rel := make(chan struct{}), make(chan struct{})
		armed := false
		if hold >= 0 {
			cnt := 0
			w.SetOnEmit(func(d *world.Datagram) {
				if d.Src != x.Addr || armed {
					return
				}
				if cnt == hold {
					armed = true
					close(hit)
					<-rel
					return
				}
				cnt++
			})
		}
		var ops []*world.Op
		w.Skew()
		for _, k := range []byte(seq) {
			k := opKind(k)
			switch k {
			case opWriteA, opWriteB, opWriteC:
				payload := []byte("payload-" + string(rune(k)))
				ops = append(ops, w.GoNoSkew("Write-"+string(rune(k)), func(*world.Op) error { _, e := x.Conn.Write(payload); return e }))
			case opRetx:
				if peerLast != nil {
					w.NoSkew = true
					w.Push(y.Addr, x.Addr, peerLast)
					w.NoSkew = false
				}
			case opUpdate:
				ops = append(ops, w.GoNoSkew("UpdateKeys", func(*world.Op) error {
					ctx, cancel := context.WithTimeout(context.Background(), 30*time.Second)
					defer cancel()
					return x.Conn.UpdateKeys(ctx, dtls.KeyUpdateOptions{})
				}))
			// the kind of error the transport reports varies with the hold index of the case: a plain error, a
			// deadline (timeout) error, a temporary non-timeout error: code that looks at the KIND of a transport
			// error before deciding what the failed send means has all three to look at
			case opFail:
				switch hold {
				case 1:
					x.PC.FailNextWrites(1, world.TimeoutNetErr{})
				case 2:
					x.PC.FailNextWrites(1, world.TempNetErr{})
				default:
					x.PC.FailNextWrites(1, errors.New("injected transient send error"))
				}
			case opLate:
				switch hold {
				case 1:
					x.PC.FailNextWritesAfterSendZero(1, world.TimeoutNetErr{})
				case 2:
					x.PC.FailNextWritesAfterSend(1, world.TempNetErr{})
				default:
					x.PC.FailNextWritesAfterSend(1, errors.New("injected send error reported after the datagram left"))
				}
			case opClose:
				ops = append(ops, w.GoNoSkew("Close", func(*world.Op) error { return x.Conn.Close() }))
			}
		}
		w.SettleLoose()
		held := false
		if hold >= 0 {
			select {
			case <-hit:
				held = true
				// one more Write queues behind the write lock while the emission is parked
				ops = append(ops, w.GoNoSkew("Write-late", func(*world.Op) error { _, e := x.Conn.Write([]byte("payload-late")); return e }))
				w.SettleLoose()
				close(rel)
				w.SettleLoose()
			default:
			}
			w.SetOnEmit(nil)
		}
		if !world.MutexBlocked() {
			w.Settle()
		}
		// deliver everything, let the peer answer (ACKs, close_notify replies), then settle the books
		_ = n.Pump(3*time.Second, func() bool {
			for _, op := range ops {
				if !op.Done() {
					return false
				}
			}
			return w.Head() == nil
		})
		n.Flush()
		recs := dec.Poll()
		o.NonTrivial = w.EmittedCount() > burstStart
		var viol []string
		counts := map[string]int{}
		for _, e := range []*world.Endpoint{pr.C, pr.S} {
			v, c := monitor(recs, e.Addr)
			if v != "" {
				viol = append(viol, v)
			}
			for k, n := range c {
				counts[k] += n
			}
		}
		o.Counters = counts
		o.Class = fmt.Sprintf("%s held=%v", classOf(ops), held)
		if len(viol) > 0 {
			o.Violation = fmt.Sprintf("config=%s sender=%s ops=%s hold=%d: %s", cc.name, x.Name, seq, hold, strings.Join(viol, "; "))
		}
		o.Sample = map[string]any{"config": cc.name, "sender": x.Name, "ops": seq, "hold": hold, "records_checked": counts["records"]}
		pr.CloseAll()
	})
	return o
}

func classOf(ops []*world.Op) string {
	ok, fail := 0, 0
	for _, op := range ops {
		if d, e := op.Result(); d && e == nil {
			ok++
		} else {
			fail++
		}
	}
	return fmt.Sprintf("ops-ok=%d ops-err=%d", ok, fail)
}

// wrapRun presets the sender's record counter just below 2^48 and runs a sequence of record-emitting
// operations across the boundary: w = Write, k = UpdateKeys (1.3), r = the peer's final handshake datagram
// arrives again (final-flight resend / ACK), x = Close (alert).
func wrapRun(t *testing.T, p *world.PKI, cc cfgCase, clientSends bool, ops string, seed uint64) run.Outcome {
	return wrapRunAt(t, p, cc, clientSends, ops, uint64(1)<<48-1, seed)
}

// wrapRunAt: as wrapRun, around an arbitrary last-number-before-the-boundary (maxSeq). Below 2^48-1 no
// write may fail: the records must simply carry increasing numbers and open under the reference keys at
// those numbers (DTLS 1.3 puts only 16 bits of the number on the wire and derives the nonce from all of it).
func wrapRunAt(t *testing.T, p *world.PKI, cc cfgCase, clientSends bool, ops string, maxSeq uint64, seed uint64) run.Outcome {
	var o run.Outcome
	world.Run(t, seed, func(w *world.World) {
		pr, err := cc.v.Setup(w, p)
		if err != nil {
			o.Skip = true
			return
		}
		n := world.NewNet(w, world.ClientAddr, nil)
		if err := n.Pump(20*time.Second, pr.BothDone); err != nil || !pr.BothOK() {
			o.Skip = true
			return
		}
		n.Flush()
		dec := pr.NewDecoder()
		w.CIDLenHint = pr.CIDLenFor
		dec.Poll()
		x, y := pr.S, pr.C
		if clientSends {
			x, y = pr.C, pr.S
		}
		var peerLast []byte
		for _, d := range w.Emitted() {
			if d.Src == y.Addr && d.ID >= pr.FirstID {
				peerLast = d.Data
			}
		}
		final := maxSeq == uint64(1)<<48-1
		var epoch uint16
		dtls.VerifPoke(x.Conn, func(in dtls.VerifInternals) {
			cs := dtlsstate.CommonState(in.State)
			epoch = cs.LocalEpoch()
			cs.LocalSequenceNumber[epoch] = maxSeq - 1
		})
		dec.SetExpected(clientSends, epoch, maxSeq-1)
		var errs []error
		var kinds []byte
		for i, k := range []byte(ops) {
			var op *world.Op
			switch k {
			case 'w':
				op = w.Go(fmt.Sprintf("Write%d", i), func(*world.Op) error { _, e := x.Conn.Write([]byte{byte('0' + i)}); return e })
			case 'k':
				op = w.Go("UpdateKeys", func(*world.Op) error {
					ctx, cancel := context.WithTimeout(context.Background(), 8*time.Second)
					defer cancel()
					return x.Conn.UpdateKeys(ctx, dtls.KeyUpdateOptions{})
				})
			case 'x':
				op = w.Go("Close", func(*world.Op) error { return x.Conn.Close() })
			case 'r':
				if peerLast != nil {
					w.Push(y.Addr, x.Addr, peerLast)
				}
			case 'e':
				// export the session (through the serialised form) and continue on an imported connection
				st, ok := x.Conn.ConnectionState()
				if !ok {
					continue
				}
				bin, merr := st.MarshalBinary()
				var st2 dtls.State
				if merr != nil || st2.UnmarshalBinary(bin) != nil {
					continue
				}
				x.Detach()
				nx, rerr := x.ResumeFrom(p, &st2)
				if rerr != nil {
					o.Class = "export-import-refused: " + rerr.Error()
					continue
				}
				hs := nx.StartResumedHandshake()
				_ = n.Pump(2*time.Second, hs.Done)
				x = nx
			}
			if op != nil {
				_ = n.Pump(10*time.Second, op.Done)
				_, e := op.Result()
				if !op.Done() {
					e = world.ErrHorizon
				}
				if k == 'w' {
					errs = append(errs, e)
					kinds = append(kinds, k)
				}
			} else {
				_ = n.Pump(2*time.Second, func() bool { return w.Head() == nil })
			}
		}
		n.Flush()
		recs := dec.Poll()
		o.NonTrivial = true
		var seqs []uint64
		for _, r := range recs {
			if r.D.Src == x.Addr && r.Epoch == epoch && (r.OK || !r.Unified) {
				seqs = append(seqs, r.Seq)
			}
		}
		v, _ := monitor(recs, x.Addr)
		o.Class = fmt.Sprintf("ops=%s writes=%v seqs=%v", ops, errClasses(errs), rel(seqs, maxSeq))
		switch {
		case v != "":
			o.Violation = fmt.Sprintf("config=%s sender=%s boundary ops=%s: %s", cc.name, x.Name, ops, v)
		case !final:
			for i, e := range errs {
				if e != nil {
					o.Violation = fmt.Sprintf("config=%s sender=%s ops=%s around sequence number %d: write #%d failed (%v) although the counter is nowhere near 2^48", cc.name, x.Name, ops, maxSeq, i, e)
				}
			}
			if len(seqs) < len(errs) {
				o.Violation = fmt.Sprintf("config=%s sender=%s ops=%s around sequence number %d: %d writes returned nil but only %d records of the epoch were emitted and opened under the reference keys at their numbers: %v", cc.name, x.Name, ops, maxSeq, len(errs), len(seqs), seqs)
			}
		default:
			// application writes: the first two record numbers (2^48-2, 2^48-1) are available to whoever emits first;
			// once the counter is exhausted every Write must fail
			used := len(seqs)
			for i, e := range errs {
				if e == nil && used > 2 {
					o.Violation = fmt.Sprintf("config=%s sender=%s boundary ops=%s: %d records were emitted in the epoch although only 2 numbers were left (write #%d returned nil): emitted %v", cc.name, x.Name, ops, used, i, rel(seqs, maxSeq))
				}
			}
			if ops == "wwww" && (errs[0] != nil || errs[1] != nil || errs[2] == nil || errs[3] == nil || len(seqs) != 2) {
				o.Violation = fmt.Sprintf("config=%s sender=%s boundary: writes at 2^48-2 and 2^48-1 must succeed and later ones must fail rather than wrap: results %v, emitted %v", cc.name, x.Name, errClasses(errs), rel(seqs, maxSeq))
			}
		}
		o.Sample = map[string]any{"config": cc.name, "sender": x.Name, "boundary_ops": ops, "class": o.Class}
		pr.CloseAll()
	})
	return o
}

// lossRun: one handshake datagram of X (its k-th) is lost or duplicated, so that a genuine retransmission
// (new record numbers) of X's or the peer's flight happens; X writes as soon as its own handshake call has
// returned (possibly before the peer is done: the final flight may be the lost one), again after both sides
// are done, and once more after a further second of fake time. Every record of the execution is audited.
func lossRun(t *testing.T, p *world.PKI, cc cfgCase, clientSends bool, k int, act world.Action, seed uint64) run.Outcome {
	var o run.Outcome
	world.Run(t, seed, func(w *world.World) {
		pr, err := cc.v.Setup(w, p)
		if err != nil {
			o.Skip = true
			return
		}
		n := world.NewNet(w, world.ClientAddr, world.Mask{{FromClient: clientSends, Idx: k, Act: act}})
		x := pr.S
		if clientSends {
			x = pr.C
		}
		w.CIDLenHint = pr.CIDLenFor
		writes := 0
		write := func(tag string) {
			op := w.Go("Write-"+tag, func(*world.Op) error { _, e := x.Conn.Write([]byte("payload-" + tag)); return e })
			_ = n.Pump(5*time.Second, op.Done)
			if _, e := op.Result(); op.Done() && e == nil {
				writes++
			}
		}
		_ = n.Pump(20*time.Second, func() bool { return x.HS.Done() || pr.BothDone() })
		early := false
		if d, e := x.HS.Result(); d && e == nil && !pr.BothDone() {
			early = true
			write("early")
		}
		if err := n.Pump(30*time.Second, pr.BothDone); err != nil || !pr.BothOK() {
			o.Skip = true
			o.Class = "handshake-failed"
			pr.CloseAll()
			return
		}
		write("after")
		_ = n.Pump(1500*time.Millisecond, func() bool { return false })
		write("late")
		n.Flush()
		dec := pr.NewDecoder()
		recs := dec.Poll()
		o.NonTrivial = n.Faulted > 0 || k < 0
		var viol []string
		counts := map[string]int{}
		for _, e := range []*world.Endpoint{pr.C, pr.S} {
			v, c := monitor(recs, e.Addr)
			if v != "" {
				viol = append(viol, v)
			}
			for kk, nn := range c {
				counts[kk] += nn
			}
		}
		o.Counters = counts
		o.Class = fmt.Sprintf("loss fault-fired=%v early-write=%v writes-ok=%d", n.Faulted > 0, early, writes)
		if len(viol) > 0 {
			o.Violation = fmt.Sprintf("config=%s sender=%s handshake datagram %d %s: %s", cc.name, x.Name, k, act, strings.Join(viol, "; "))
		}
		o.Sample = map[string]any{"config": cc.name, "sender": x.Name, "fault": fmt.Sprintf("%d:%s", k, act), "records_checked": counts["records"], "class": o.Class}
		pr.CloseAll()
	})
	return o
}

func errClasses(errs []error) string {
	s := ""
	for _, e := range errs {
		switch {
		case e == nil:
			s += "ok,"
		case errors.Is(e, dtlsErrOverflow()):
			s += "overflow,"
		default:
			s += "err,"
		}
	}
	return s
}

func rel(seqs []uint64, max uint64) string {
	s := ""
	for _, q := range seqs {
		if q+4 >= max {
			s += fmt.Sprintf("max-%d,", max-q)
		} else {
			s += fmt.Sprintf("%d,", q)
		}
	}
	return s
}

func TestC09(t *testing.T) {
	env := run.GetEnv()
	p := world.GetPKI(t)
	var cases []run.Case
	for _, cc := range configs(env.Thorough()) {
		alpha := []opKind{opWriteA, opWriteB, opWriteC, opRetx, opFail, opLate, opClose}
		if cc.v.V13 {
			alpha = []opKind{opWriteA, opWriteB, opWriteC, opRetx, opUpdate, opFail, opLate, opClose}
		}
		depth := 3
		if env.Thorough() {
			depth = 4
		}
		for _, clientSends := range []bool{true, false} {
			side := "server"
			if clientSends {
				side = "client"
			}
			for _, seq := range sequences(alpha, depth) {
				for hold := -1; hold <= 2; hold++ {
					cc, clientSends, seq, hold := cc, clientSends, seq, hold
					cases = append(cases, run.Case{ID: fmt.Sprintf("%s/%s/%s/h%d", cc.name, side, seq, hold),
						Run: func(t *testing.T) run.Outcome { return c09Run(t, p, cc, clientSends, seq, hold, env.Seed+1) }})
				}
			}
			wrapOps := []string{"wwww", "wrw", "wwrw", "wxw", "wwx", "rww"}
			if !cc.v.V13 {
				wrapOps = append(wrapOps, "wwew", "wew", "ewww") // e = export / import in between (DTLS 1.2 state export)
			}
			if cc.v.V13 {
				wrapOps = append(wrapOps, "wkw", "wwkw", "kww", "wwk", "wkrw")
			}
			for k := 0; k < 8; k++ {
				for _, act := range []world.Action{world.ActDrop, world.ActDup, world.ActHold3} {
					cc, clientSends, k, act := cc, clientSends, k, act
					cases = append(cases, run.Case{ID: fmt.Sprintf("%s/%s/loss-%d-%s", cc.name, side, k, act), Run: func(t *testing.T) run.Outcome { return lossRun(t, p, cc, clientSends, k, act, env.Seed+1) }})
				}
			}
			// boundaries of the DTLS 1.3 wire encoding of the number (16 bits) and of 32-bit arithmetic
			for _, at := range []uint64{1<<16 - 1, 1<<32 - 1} {
				cc, clientSends, at := cc, clientSends, at
				cases = append(cases, run.Case{ID: fmt.Sprintf("%s/%s/seq-boundary-%d-wwww", cc.name, side, at+1), Run: func(t *testing.T) run.Outcome { return wrapRunAt(t, p, cc, clientSends, "wwww", at, env.Seed+1) }})
			}
			for _, ops := range wrapOps {
				cc, clientSends, ops := cc, clientSends, ops
				cases = append(cases, run.Case{ID: fmt.Sprintf("%s/%s/wrap-%s", cc.name, side, ops), Run: func(t *testing.T) run.Outcome { return wrapRun(t, p, cc, clientSends, ops, env.Seed+1) }})
			}
		}
	}
	cases = append(cases, deadlineLateCases(p, env.Thorough(), env.Seed+1)...)
	for _, cc := range mtuConfigs() {
		for _, clientSends := range []bool{true, false} {
			side := "server"
			if clientSends {
				side = "client"
			}
			for k := -1; k < 14; k++ {
				for _, act := range []world.Action{world.ActDrop, world.ActDup, world.ActHold3} {
					if k < 0 && act != world.ActDrop {
						continue // k = -1: no fault at all (the mask names a datagram that does not exist)
					}
					cc, clientSends, k, act := cc, clientSends, k, act
					kk := k
					if k < 0 {
						kk = 1 << 20
					}
					cases = append(cases, run.Case{ID: fmt.Sprintf("%s/%s/loss-%d-%s", cc.name, side, k, act), Run: func(t *testing.T) run.Outcome {
						o := lossRun(t, p, cc, clientSends, kk, act, env.Seed+1)
						if k < 0 && o.Violation == "" && !o.Skip {
							o.NonTrivial = true
						}
						return o
					}})
				}
			}
		}
	}
	run.Main(t, "C09", cases, map[string]any{"mtu_configs": len(mtuConfigs()), "configs": len(configs(env.Thorough())), "ops_alphabet": "Write a/b/c, peer retransmission, UpdateKeys (1.3), transient send failure, Close", "max_concurrent_ops": 3, "holds": "none, emission 0, 1, 2"})
}
