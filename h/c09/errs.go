package c09

import dtlserrors "github.com/pion/dtls/v3/internal/errors"

func dtlsErrOverflow() error { return dtlserrors.ErrSequenceNumberOverflow }
