package c08

import (
	"encoding/binary"
	"fmt"
	"sort"

	"github.com/pion/dtls/v3/zzverif/refimpl"
	"github.com/pion/dtls/v3/zzverif/world"
)

// input is one hostile datagram of the bounded grammar.
type input struct {
	fam  string
	idx  int
	desc string
	// data is the datagram for unauthenticated inputs; forged inputs carry a spec that is sealed with the
	// genuine peer's keys at injection time (fresh sequence number).
	data  []byte
	forge *forgeSpec
	// class / verdict: reference reading of the input (ref.go); forged inputs get theirs from the generator.
	class   string
	verdict verdict
	// suspect marks inputs of the three historical single-datagram crashes; they run isolated in a child
	// process so that a regression is attributed to exactly this input and reported under its own key.
	suspect string
	// unit groups probe inputs that are injected on ONE association (0 = alone)
	unit int
}

func (in *input) id() string { return fmt.Sprintf("%s#%d", in.fam, in.idx) }

// Known-defect keys (exactly as listed in the assignment).
const (
	keyF1 = "F1-fragmentbuffer-pop-nil-deref:len0-offset-nonzero"
	keyF2 = "F2-cbc-padding-longer-than-record-panic"
	keyF3 = "F3-clientkeyexchange-ecdhepsk-short-body-panic"
)

// genInfo is everything the generators know about the context (all of it observable by an on-path
// attacker, except the forger which holds the peer's keys).
type genInfo struct {
	vw             view
	thorough       bool
	victimIsClient bool
	kx             string
	cur            uint16 // next handshake message_seq the victim expects
	emitted        []*world.Datagram
	toVictim       func(d *world.Datagram) bool
	fg             *forger // nil while the victim holds no record keys
	epochNow       uint16  // highest epoch the victim can read
	victimEst      bool    // the victim's handshake has completed
	cbc            bool    // the negotiated suite is a CBC suite
	// nextType is the handshake type the victim would plausibly receive next (for quick-tier products).
	nextType byte
}

type gen struct {
	fam string
	out []*input
	gi  *genInfo
}

func (g *gen) raw(desc string, d []byte) *input {
	cl, vd := walkVerdict(g.gi.vw, d)
	in := &input{fam: g.fam, idx: len(g.out), desc: desc, data: d, class: cl, verdict: vd}
	g.out = append(g.out, in)
	return in
}

func (g *gen) forged(desc string, fs *forgeSpec, class string, vd verdict) *input {
	in := &input{fam: g.fam, idx: len(g.out), desc: desc, forge: fs, class: class, verdict: vd}
	g.out = append(g.out, in)
	return in
}

func filler(n int) []byte {
	b := make([]byte, n)
	for i := range b {
		b[i] = byte(0xA0 + i%16)
	}
	return b
}

// --- (i) all byte strings of length <= 2 -----------------------------------------------------------

func genBytes(gi *genInfo) []*input {
	g := &gen{fam: "bytes", gi: gi}
	g.raw("len0", []byte{})
	for a := 0; a < 256; a++ {
		g.raw(fmt.Sprintf("%02x", a), []byte{byte(a)})
	}
	interestingFirst := map[int]bool{}
	for _, a := range []int{0x14, 0x15, 0x16, 0x17, 0x19, 0x1a, 0x1b, 0x20, 0x24, 0x28, 0x2c, 0x30, 0x3c, 0x3f} {
		interestingFirst[a] = true
	}
	for a := 0; a < 256; a++ {
		for b := 0; b < 256; b++ {
			if !gi.thorough {
				// quick: every first byte x {00,01,fd,fe,ff}, and every second byte behind the interesting first bytes
				if !(interestingFirst[a] || b == 0 || b == 1 || b == 0xfd || b == 0xfe || b == 0xff) {
					continue
				}
			}
			g.raw(fmt.Sprintf("%02x%02x", a, b), []byte{byte(a), byte(b)})
		}
	}
	return g.out
}

// --- (ii) record header product --------------------------------------------------------------------

var (
	recTypes = func() []byte {
		t := []byte{20, 21, 22, 23, 24, 25, 26, 27, 0, 255}
		for b := 0x20; b <= 0x3f; b++ {
			t = append(t, byte(b))
		}
		return t
	}()
	recVersions = [][2]byte{{0xfe, 0xfd}, {0xfe, 0xff}, {0xfe, 0xfc}, {0, 0}}
	recEpochs   = []uint16{0, 1, 2, 3, 0xffff}
	recSeqs     = []uint64{0, 1, 1<<48 - 1}
	declKinds   = []string{"0", "1", "true", "true-1", "true+1", "ffff"}
)

func typicalBody(t byte, cur uint16) []byte {
	switch {
	case t == 20:
		return []byte{1}
	case t == 21:
		return []byte{1, 90} // warning, user_canceled
	case t == 22:
		return hsMessage(0, 0xfff0, nil) // HelloRequest far in the future of the message sequence
	case t == 26:
		return []byte{0, 0}
	case t == 27:
		return append([]byte{0}, filler(8)...)
	case isUnifiedFirst(t):
		return filler(24)
	}
	return filler(16)
}

func declared(kind string, n int) (int, bool) {
	switch kind {
	case "0":
		return 0, true
	case "1":
		return 1, true
	case "true":
		return n, true
	case "true-1":
		return n - 1, n >= 1
	case "true+1":
		return n + 1, true
	}
	return 0xffff, true
}

func genRecHdr(gi *genInfo) []*input {
	g := &gen{fam: "rechdr", gi: gi}
	type row struct{ t, v, e, s, d, b int }
	var rows []row
	if gi.thorough {
		for t := range recTypes {
			for v := range recVersions {
				for e := range recEpochs {
					for s := range recSeqs {
						for d := range declKinds {
							for b := 0; b < 2; b++ {
								rows = append(rows, row{t, v, e, s, d, b})
							}
						}
					}
				}
			}
		}
	} else {
		// quick: a pairwise-complete covering of the six fields plus the full product over a reduced domain
		for _, r := range pairwise([]int{len(recTypes), len(recVersions), len(recEpochs), len(recSeqs), len(declKinds), 2}) {
			rows = append(rows, row{r[0], r[1], r[2], r[3], r[4], r[5]})
		}
		redT := []int{0, 1, 2, 3, 5, 6, 8, 9, 10 + 0x0c, 10 + 0x1f} // 20 21 22 23 25 26 0 255 0x2c 0x3f
		for _, t := range redT {
			for _, v := range []int{0, 3} {
				for _, e := range []int{0, 1, 4} {
					for _, s := range []int{0, 2} {
						for d := range declKinds {
							rows = append(rows, row{t, v, e, s, d, 0})
						}
					}
				}
			}
		}
	}
	seen := map[string]bool{}
	for _, r := range rows {
		t := recTypes[r.t]
		body := typicalBody(t, gi.cur)
		if r.b == 1 {
			body = nil
		}
		dl, ok := declared(declKinds[r.d], len(body))
		if !ok {
			continue
		}
		d := rec12(t, recVersions[r.v], recEpochs[r.e], recSeqs[r.s], dl, body)
		k := string(d)
		if seen[k] {
			continue
		}
		seen[k] = true
		g.raw(fmt.Sprintf("t%02x v%02x%02x e%d s%d decl=%s body=%d", t, recVersions[r.v][0], recVersions[r.v][1], recEpochs[r.e], recSeqs[r.s], declKinds[r.d], len(body)), d)
	}
	return g.out
}

// pairwise returns a deterministic greedy covering array: every pair of values of every two fields
// appears in some row.
func pairwise(dom []int) [][]int {
	n := len(dom)
	type pair struct{ f1, v1, f2, v2 int }
	unc := map[pair]bool{}
	for a := 0; a < n; a++ {
		for b := a + 1; b < n; b++ {
			for x := 0; x < dom[a]; x++ {
				for y := 0; y < dom[b]; y++ {
					unc[pair{a, x, b, y}] = true
				}
			}
		}
	}
	var rows [][]int
	for len(unc) > 0 {
		// seed: the smallest uncovered pair (deterministic order)
		var seed pair
		first := true
		for p := range unc {
			if first || p.f1 < seed.f1 || (p.f1 == seed.f1 && (p.f2 < seed.f2 || (p.f2 == seed.f2 && (p.v1 < seed.v1 || (p.v1 == seed.v1 && p.v2 < seed.v2))))) {
				seed, first = p, false
			}
		}
		row := make([]int, n)
		set := make([]bool, n)
		row[seed.f1], set[seed.f1] = seed.v1, true
		row[seed.f2], set[seed.f2] = seed.v2, true
		for f := 0; f < n; f++ {
			if set[f] {
				continue
			}
			best, bestGain := 0, -1
			for v := 0; v < dom[f]; v++ {
				gain := 0
				for o := 0; o < n; o++ {
					if !set[o] {
						continue
					}
					p := pair{o, row[o], f, v}
					if o > f {
						p = pair{f, v, o, row[o]}
					}
					if unc[p] {
						gain++
					}
				}
				if gain > bestGain {
					best, bestGain = v, gain
				}
			}
			row[f], set[f] = best, true
		}
		for a := 0; a < n; a++ {
			for b := a + 1; b < n; b++ {
				delete(unc, pair{a, row[a], b, row[b]})
			}
		}
		rows = append(rows, row)
	}
	return rows
}

// --- (ii) handshake header product ----------------------------------------------------------------

var (
	hsTypes = func() []byte {
		var t []byte
		for i := 0; i <= 25; i++ {
			t = append(t, byte(i))
		}
		return append(t, 254, 255)
	}()
	hsLens = []uint32{0, 1, 12, 1<<24 - 1}
)

// hsShape is one point of the handshake-header product.
type hsShape struct {
	typ       byte
	length    uint32
	mseq      uint16
	off, flen uint32
	mseqName  string
}

// isComplete: the fragment is a whole (tiny) message.
func (s hsShape) isComplete() bool { return s.off == 0 && s.flen == s.length && s.length <= 12 }

// hangSuspect: a complete handshake message at (or next to) the expected message_seq of an ESTABLISHED
// endpoint: the post-handshake processing of DTLS 1.3 once spun forever on such a message. Isolated.
func hangSuspect(gi *genInfo, mseq uint16) bool {
	return gi.victimEst && gi.vw.is13 && (mseq == gi.cur || mseq == gi.cur-1 || mseq == gi.cur+1)
}

// isF1Shape: a fragment that makes the message "complete" with total length 0 although no fragment sits
// at offset 0 (length=0, fragment_length=0, fragment_offset!=0).
func (s hsShape) isF1Shape() bool { return s.length == 0 && s.flen == 0 && s.off != 0 }

func (s hsShape) bytes() []byte {
	n := s.flen
	if n > 12 {
		n = 12 // a fragment_length of 2^24-1 cannot be backed by data: supply 12 bytes
	}
	return append(hsHeader(s.typ, s.length, s.mseq, s.off, s.flen), filler(int(n))...)
}

func (s hsShape) String() string {
	return fmt.Sprintf("hs type=%d len=%d mseq=%s off=%d flen=%d", s.typ, s.length, s.mseqName, s.off, s.flen)
}

func hsShapes(gi *genInfo, full bool) []hsShape {
	mseqs := []struct {
		v uint16
		n string
	}{{0, "0"}, {gi.cur - 1, "cur-1"}, {gi.cur, "cur"}, {gi.cur + 1, "cur+1"}, {0xffff, "ffff"}}
	var out []hsShape
	seen := map[[5]uint32]bool{}
	add := func(t byte, l uint32, m int, off, fl uint32) {
		k := [5]uint32{uint32(t), l, uint32(mseqs[m].v), off, fl}
		if seen[k] {
			return
		}
		seen[k] = true
		out = append(out, hsShape{typ: t, length: l, mseq: mseqs[m].v, mseqName: mseqs[m].n, off: off, flen: fl})
	}
	inner := func(t byte) {
		for _, l := range hsLens {
			for m := range mseqs {
				for _, off := range []uint32{0, 1, l, 1<<24 - 1} {
					for _, fl := range []uint32{0, 1, l, 1<<24 - 1} {
						add(t, l, m, off, fl)
					}
				}
			}
		}
	}
	if full {
		for _, t := range hsTypes {
			inner(t)
		}
		return out
	}
	// quick: the full (length x message_seq x offset x fragment_length) product for six types, and a
	// pairwise-complete covering of all five fields for the remaining types
	for _, t := range quickTypes(gi) {
		inner(t)
	}
	for _, r := range pairwise([]int{len(hsTypes), len(hsLens), len(mseqs), 4, 4}) {
		l := hsLens[r[1]]
		offs := []uint32{0, 1, l, 1<<24 - 1}
		add(hsTypes[r[0]], l, r[2], offs[r[3]], offs[r[4]])
	}
	return out
}

// quickTypes: handshake types whose whole (length x message_seq x offset x fragment_length) product is
// enumerated in the quick tier: the type expected next, ClientHello, and one unknown type; on an
// established DTLS 1.3 endpoint the post-handshake types as well.
func quickTypes(gi *genInfo) []byte {
	t := []byte{gi.nextType, 1, 255}
	if gi.victimEst && gi.vw.is13 {
		t = append(t, 4, 20, 24)
	}
	return t
}

func genHsHdr(gi *genInfo) []*input {
	g := &gen{fam: "hshdr", gi: gi}
	for i, s := range hsShapes(gi, gi.thorough) {
		in := g.raw(s.String()+" (plaintext epoch 0)", plain12(22, 0, uint64(0x100000+i), s.bytes()))
		if s.isF1Shape() && s.mseq >= gi.cur {
			in.suspect = "F1"
		} else if s.isComplete() && hangSuspect(gi, s.mseq) {
			in.suspect = "HANG"
		}
	}
	return g.out
}

// --- genuine handshake messages seen so far ---------------------------------------------------------

type genuineMsg struct {
	fromClient bool
	typ        byte
	mseq       uint16
	body       []byte
}

// genuineMessages reassembles the plaintext (epoch 0) handshake messages found in the emission log.
func genuineMessages(gi *genInfo) []genuineMsg {
	type key struct {
		c bool
		m uint16
		t byte
		l uint32
	}
	parts := map[key]map[uint32][]byte{}
	var order []key
	for _, d := range gi.emitted {
		recs, _ := world.ParseDatagram(d.Data, 0)
		for _, r := range recs {
			if r.Unified || r.Type != 22 || r.Epoch != 0 {
				continue
			}
			for _, f := range r.HS {
				k := key{d.Src == world.ClientAddr, f.MsgSeq, f.Type, f.Len}
				if parts[k] == nil {
					parts[k] = map[uint32][]byte{}
					order = append(order, k)
				}
				parts[k][f.FragOff] = f.Body
			}
		}
	}
	var out []genuineMsg
	for _, k := range order {
		var body []byte
		for uint32(len(body)) < k.l {
			p, ok := parts[k][uint32(len(body))]
			if !ok || len(p) == 0 {
				break
			}
			body = append(body, p...)
		}
		if uint32(len(body)) == k.l {
			out = append(out, genuineMsg{k.c, k.t, k.m, body})
		}
	}
	// protected DTLS 1.3 handshake messages readable with the forger's keys
	if gi.fg != nil && gi.fg.is13 {
		out = append(out, gi.fg.decrypted13...)
	}
	return out
}

func truncLens(n int, thorough bool) []int {
	var ls []int
	for i := 0; i < n; i++ {
		if thorough || i < 48 || i%13 == 0 || i >= n-4 {
			ls = append(ls, i)
		}
	}
	return ls
}

// genMsgTrunc: every genuine handshake message seen so far, truncated at every byte and framed as a
// complete message at the expected message_seq; plus tiny key-exchange bodies under the variant's
// key-exchange context.
func genMsgTrunc(gi *genInfo) []*input {
	g := &gen{fam: "msgtrunc", gi: gi}
	seq := uint64(0x200000)
	seenBody := map[string]bool{}
	for _, m := range genuineMessages(gi) {
		if m.fromClient == gi.victimIsClient && !gi.thorough {
			continue // quick: only messages of the peer's role (what the victim's parsers are fed)
		}
		for _, l := range truncLens(len(m.body), gi.thorough) {
			k := fmt.Sprintf("%d/%x", m.typ, m.body[:l])
			if seenBody[k] {
				continue
			}
			seenBody[k] = true
			seq++
			in := g.raw(fmt.Sprintf("genuine %s#%d truncated to %d/%d at mseq=cur", world.HSName(m.typ), m.mseq, l, len(m.body)),
				plain12(22, 0, seq, hsMessage(m.typ, gi.cur, m.body[:l])))
			if gi.victimEst && gi.vw.is13 && (gi.thorough || l <= 4) {
				in.suspect = "HANG"
			}
		}
	}
	// well-formed hellos that offer another protocol version: legacy_version rewritten, with the genuine
	// extension block and with every extension removed (no supported_versions): what a peer speaking
	// DTLS 1.0, a future version or plain TLS would send as its first message
	for _, m := range genuineMessages(gi) {
		if (m.typ != 1 && m.typ != 2) || len(m.body) < 40 || m.fromClient == gi.victimIsClient {
			continue
		}
		// hello body: version(2) random(32) session_id<1> [cookie<1> (ClientHello)] ... extensions<2> at the end
		noExt := func(b []byte) []byte {
			p := 34
			if p >= len(b) {
				return nil
			}
			p += 1 + int(b[p]) // session id
			if m.typ == 1 {
				if p >= len(b) {
					return nil
				}
				p += 1 + int(b[p]) // cookie
				if p+2 > len(b) {
					return nil
				}
				p += 2 + (int(b[p])<<8 | int(b[p+1])) // cipher suites
				if p >= len(b) {
					return nil
				}
				p += 1 + int(b[p]) // compression methods
			} else {
				p += 3 // cipher suite + compression method
			}
			if p > len(b) {
				return nil
			}
			return append([]byte(nil), b[:p]...)
		}
		for _, ver := range [][2]byte{{0xfe, 0xff}, {0xfe, 0xfc}, {0x03, 0x03}, {0x03, 0x04}, {0x00, 0x00}, {0xff, 0xff}} {
			for _, strip := range []bool{false, true} {
				b := append([]byte(nil), m.body...)
				if strip {
					if b = noExt(b); b == nil {
						continue
					}
				}
				b[0], b[1] = ver[0], ver[1]
				k := fmt.Sprintf("%d/%x", m.typ, b)
				if seenBody[k] {
					continue
				}
				seenBody[k] = true
				seq++
				g.raw(fmt.Sprintf("genuine %s#%d with legacy_version=%02x%02x, extensions removed=%v, at mseq=cur", world.HSName(m.typ), m.mseq, ver[0], ver[1], strip),
					plain12(22, 0, seq, hsMessage(m.typ, gi.cur, b)))
			}
		}
	}
	// key-exchange bodies of length 0..3
	small := [][]byte{{}, {0}, {1}, {0xff}, {0, 0}, {0, 1}, {1, 0}, {0xff, 0xff}, {0, 0, 0}, {0, 0, 1}, {0, 1, 0}, {3, 0, 0x1d}}
	for _, t := range []byte{16, 12} {
		for _, b := range small {
			seq++
			in := g.raw(fmt.Sprintf("%s body=%x kx=%s at mseq=cur", world.HSName(t), b, gi.kx), plain12(22, 0, seq, hsMessage(t, gi.cur, b)))
			if t == 16 && !gi.victimIsClient && len(b) <= 3 && gi.kx != "13" {
				in.suspect = "F3"
			} else if gi.victimEst && gi.vw.is13 && len(b) <= 1 {
				in.suspect = "HANG"
			}
		}
	}
	return g.out
}

// --- (ii) small records: alerts, CCS, application data, ACK ---------------------------------------

func genSmall(gi *genInfo) []*input {
	g := &gen{fam: "small", gi: gi}
	seq := uint64(0x300000)
	epochs := []uint16{0}
	if gi.epochNow > 0 {
		epochs = append(epochs, gi.epochNow)
	}
	epochs = append(epochs, gi.epochNow+1)
	alerts := [][]byte{{}, {1}, {2}, {1, 0}, {1, 90}, {2, 0}, {2, 40}, {2, 50}, {0, 0}, {3, 7}, {255, 255}, {1, 0, 0}, {2, 40, 0}}
	ccs := [][]byte{{}, {1}, {0}, {2}, {1, 1}, {1, 0}}
	for _, e := range epochs {
		for _, b := range alerts {
			seq++
			g.raw(fmt.Sprintf("alert body=%x epoch=%d (unprotected)", b, e), plain12(21, e, seq, b))
		}
		for _, b := range ccs {
			seq++
			g.raw(fmt.Sprintf("ccs body=%x epoch=%d (unprotected)", b, e), plain12(20, e, seq, b))
		}
		for _, n := range []int{0, 1, 16} {
			seq++
			g.raw(fmt.Sprintf("appdata len=%d epoch=%d (unprotected)", n, e), plain12(23, e, seq, filler(n)))
		}
		for _, b := range [][]byte{{}, {0}, {0, 0}, {0, 16}, append([]byte{0, 16}, filler(16)...), append([]byte{0, 16}, filler(15)...)} {
			seq++
			g.raw(fmt.Sprintf("ack body=%x epoch=%d (unprotected)", b, e), plain12(26, e, seq, b))
		}
		// well-framed tls12_cid records whose body is shorter than anything record protection produces
		// (explicit nonce 8, tag 8/16, MAC 20/32): under the victim's own connection ID once it is known, and
		// under an arbitrary one of the right length
		if !gi.vw.is13 && gi.vw.cidLen > 0 {
			cids := [][]byte{filler(gi.vw.cidLen)}
			if gi.fg != nil && len(gi.fg.cid) == gi.vw.cidLen {
				cids = append(cids, gi.fg.cid)
			}
			for ci, cid := range cids {
				for _, n := range []int{0, 1, 2, 3, 4, 5, 6, 7, 8, 9, 15, 16, 17, 23, 24, 25, 32, 33} {
					seq++
					g.raw(fmt.Sprintf("tls12_cid cid#%d body=%d epoch=%d (not protected)", ci, n, e),
						append(refimpl.Header12(refimpl.ContentTypeCID, [2]byte{0xfe, 0xfd}, e, seq, cid, n), filler(n)...))
				}
			}
		}
	}
	return g.out
}

// --- (iii) truncations and corruptions of genuine datagrams ---------------------------------------

func distinctDatagrams(gi *genInfo) []*world.Datagram {
	seen := map[string]bool{}
	var out []*world.Datagram
	for _, d := range gi.emitted {
		if seen[string(d.Data)] {
			continue
		}
		seen[string(d.Data)] = true
		out = append(out, d)
	}
	return out
}

func genTrunc(gi *genInfo) []*input {
	g := &gen{fam: "trunc", gi: gi}
	for _, d := range distinctDatagrams(gi) {
		if !gi.thorough && !gi.toVictim(d) && len(d.Data) > 200 {
			continue // quick: long datagrams only in the direction of the victim
		}
		for l := 0; l < len(d.Data); l++ {
			if !gi.thorough && !(l < 64 || l%11 == 0 || l >= len(d.Data)-20) {
				continue
			}
			in := g.raw(fmt.Sprintf("genuine datagram #%d truncated to %d/%d", d.ID, l, len(d.Data)), d.Data[:l:l])
			in.verdict, in.class = truncVerdict(gi, gi.toVictim(d), in.class, in.verdict)
		}
	}
	return g.out
}

// truncVerdict: reference reading of a truncated genuine datagram. If the datagram was addressed to
// the victim, whatever precedes the cut is genuine content (delivered early or again) and the cut record
// is structurally incomplete: the endpoint must go on. If it is one of the victim's OWN datagrams
// (reflected), complete unprotected records in it are well-formed messages of the wrong role, which may
// legitimately abort; the generic reading applies.
func truncVerdict(gi *genInfo, toVictim bool, class string, vd verdict) (verdict, string) {
	if toVictim {
		return mustSurvive, "genuine-truncated/" + class
	}
	return vd, "reflected-truncated/" + class
}

// structureOffsets returns the byte offsets of record headers, handshake headers and the first bytes of
// each body of a datagram (quick-tier corruption targets).
func structureOffsets(vw view, d []byte) map[int]bool {
	offs := map[int]bool{}
	recs, _ := world.ParseDatagram(d, vw.cidLen)
	pos := 0
	for _, r := range recs {
		hdr := len(r.Raw) - len(r.Body)
		for i := 0; i < hdr+8 && i < len(r.Raw); i++ {
			offs[pos+i] = true
		}
		if !r.Unified && r.Type == 22 && r.Epoch == 0 {
			p := pos + hdr
			for _, f := range r.HS {
				for i := 0; i < 12+6 && p+i < len(d); i++ {
					offs[p+i] = true
				}
				p += 12 + len(f.Body)
			}
		}
		for i := 1; i <= 2 && len(r.Raw)-i >= 0; i++ {
			offs[pos+len(r.Raw)-i] = true
		}
		pos += len(r.Raw)
	}
	for i := pos; i < len(d); i++ {
		offs[i] = true
	}
	return offs
}

func genCorrupt(gi *genInfo) []*input {
	g := &gen{fam: "corrupt", gi: gi}
	unitSeq := 0
	for _, d := range distinctDatagrams(gi) {
		if !gi.thorough && !gi.toVictim(d) {
			continue // quick: datagrams addressed to the victim
		}
		var offs map[int]bool
		if !gi.thorough {
			offs = structureOffsets(gi.vw, d.Data)
		}
		for i := range d.Data {
			if offs != nil && !offs[i] {
				continue
			}
			o := d.Data[i]
			seenV := map[byte]bool{o: true}
			for _, v := range []byte{0x00, 0xff, o + 1, o - 1} {
				if seenV[v] {
					continue
				}
				seenV[v] = true
				c := append([]byte(nil), d.Data...)
				c[i] = v
				in := g.raw(fmt.Sprintf("genuine datagram #%d byte %d: %02x->%02x", d.ID, i, o, v), c)
				in.class, in.verdict = corruptVerdict(gi, gi.toVictim(d), d.Data, i, c)
			}
		}
	}
	// key-less CBC constructions from captured protected records (DTLS 1.2 legacy records of epoch >= 1)
	for _, d := range distinctDatagrams(gi) {
		if !gi.toVictim(d) || !gi.cbc {
			continue
		}
		recs, _ := world.ParseDatagram(d.Data, gi.vw.cidLen)
		for ri, r := range recs {
			if r.Unified || r.Epoch == 0 || r.Type == 20 || len(r.Body) < 48 || len(r.Body)%16 != 0 {
				continue
			}
			hdr := append([]byte(nil), r.Raw[:len(r.Raw)-len(r.Body)]...)
			mk := func(body []byte, seq uint64) []byte {
				h := append([]byte(nil), hdr...)
				put48(h[5:], seq)
				binary.BigEndian.PutUint16(h[len(h)-2:], uint16(len(body)))
				return append(h, body...)
			}
			nb := len(r.Body) / 16
			blk := func(i int) []byte { return r.Body[16*i : 16*i+16] }
			// (a) header + the last three ciphertext blocks (the first then acts as IV): if the last plaintext
			// block is pure padding, the padding check passes and the MAC would start before the record
			in := g.raw(fmt.Sprintf("cbc-cut3 of genuine datagram #%d record %d", d.ID, ri), mk(r.Body[len(r.Body)-48:], r.Seq+0x1000))
			in.class, in.verdict, in.suspect = "protected/cbc-cut", mustSurvive, "F2"
			// (b) 256 trials: [X][Y][C(n-1)^0x1f..][C(n)]: if the last genuine block is pure padding 0f..0f, the
			// last block now decrypts to 10..10 and one value of Y[15] makes the 17th byte 0x10 as well
			prev := append([]byte(nil), blk(nb-2)...)
			for i := range prev {
				prev[i] ^= 0x0f ^ 0x10
			}
			trials := 256
			unitSeq++
			for t := 0; t < trials; t++ {
				y := filler(16)
				y[15] = byte(t)
				body := append(append(append(append([]byte(nil), filler(16)...), y...), prev...), blk(nb-1)...)
				in := g.raw(fmt.Sprintf("cbc-pad17 trial %d of genuine datagram #%d record %d", t, d.ID, ri), mk(body, r.Seq+0x2000+uint64(t)))
				in.class, in.verdict, in.suspect, in.unit = "protected/cbc-pad17", mustSurvive, "F2", unitSeq
			}
		}
	}
	return g.out
}

// corruptVerdict: reference reading of a one-byte corruption of a genuine datagram. Records in front of
// the corrupted one are genuine when the datagram was addressed to the victim; from the corrupted record
// on the generic reading applies (a corrupted protected record fails authentication: must survive; a
// corrupted unprotected record is a well-formed but different message: may abort; broken framing: must
// survive). Reflected datagrams (the victim's own) get the generic reading as a whole.
func corruptVerdict(gi *genInfo, toVictim bool, orig []byte, at int, c []byte) (string, verdict) {
	if !toVictim {
		cl, vd := walkVerdict(gi.vw, c)
		return "reflected-corrupted/" + cl, vd
	}
	recs, _ := world.ParseDatagram(orig, gi.vw.cidLen)
	pos := 0
	for _, r := range recs {
		if at < pos+len(r.Raw) {
			break
		}
		pos += len(r.Raw)
	}
	cl, vd := walkVerdict(gi.vw, c[pos:])
	return "genuine-corrupted/" + cl, vd
}

// --- (iv) authenticated malformed content ---------------------------------------------------------

func genAuth(gi *genInfo) []*input {
	g := &gen{fam: "auth", gi: gi}
	fg := gi.fg
	if fg == nil {
		return nil
	}
	for _, e := range fg.epochs {
		ep := fmt.Sprintf(" (authenticated, epoch %d)", e)
		for _, b := range [][]byte{{}, {1}, {2}, {1, 90}, {1, 0, 0}, {2, 40, 0}, {255, 255, 255}} {
			vd := mayAbort
			cl := "auth/alert-malformed"
			if len(b) == 2 {
				cl = "auth/alert-warning"
			}
			g.forged(fmt.Sprintf("alert body=%x", b)+ep, &forgeSpec{typ: 21, epoch: e, payload: b}, cl, vd)
		}
		// application data (also of length 0) in the application epoch is valid traffic: the connection must
		// go on. Under the DTLS 1.3 handshake keys (epoch 2) it is a protocol violation: may abort.
		for rep := 0; rep < 2; rep++ {
			for _, n := range []int{0, 1, 16} {
				switch {
				case fg.is13 && e < 3:
					g.forged(fmt.Sprintf("appdata len=%d (#%d) under handshake keys", n, rep)+ep, &forgeSpec{typ: 23, epoch: e, payload: filler(n)}, "auth/appdata-in-handshake-epoch", mayAbort)
				case !fg.is13 && !gi.victimIsClient && !gi.victimEst:
					// a DTLS 1.2 client cannot have sent application data before the server's Finished went out
					g.forged(fmt.Sprintf("appdata len=%d (#%d) before the server finished", n, rep)+ep, &forgeSpec{typ: 23, epoch: e, payload: filler(n)}, "auth/appdata-premature", mayAbort)
				default:
					g.forged(fmt.Sprintf("appdata len=%d (#%d)", n, rep)+ep, &forgeSpec{typ: 23, epoch: e, payload: filler(n)}, "auth/appdata-valid", mustSurvive)
				}
			}
		}
		// inner plaintext of all zeros (no content type): CID records and DTLS 1.3
		if fg.is13 || len(fg.cid) > 0 {
			for _, n := range []int{1, 2, 17} {
				g.forged(fmt.Sprintf("inner plaintext of %d zero bytes", n)+ep, &forgeSpec{kind: "zeros", epoch: e, payload: make([]byte, n)}, "auth/inner-all-zeros", mayAbort)
			}
		}
		// unknown / reserved content types inside correct protection
		for _, t := range []byte{20, 24, 25, 27, 99, 255} {
			g.forged(fmt.Sprintf("content type %d body=%x", t, filler(3))+ep, &forgeSpec{typ: t, epoch: e, payload: filler(3)}, "auth/odd-content-type", mayAbort)
		}
		// ACK / KeyUpdate / NewSessionTicket / RRC bodies truncated at every byte
		ack := append([]byte{0, 32}, filler(32)...)
		for l := 0; l <= len(ack); l++ {
			g.forged(fmt.Sprintf("ack truncated to %d/%d", l, len(ack))+ep, &forgeSpec{typ: 26, epoch: e, payload: ack[:l]}, "auth/ack-truncated", mayAbort)
		}
		rrc := append([]byte{0}, filler(8)...)
		for l := 0; l <= len(rrc); l++ {
			for _, mt := range []byte{0, 1, 2, 3} {
				p := append([]byte(nil), rrc[:l]...)
				if l > 0 {
					p[0] = mt
				} else if mt != 0 {
					continue
				}
				g.forged(fmt.Sprintf("rrc msgtype=%d truncated to %d/%d", mt, l, len(rrc))+ep, &forgeSpec{typ: 27, epoch: e, payload: p}, "auth/rrc-truncated", mayAbort)
			}
		}
		type hm struct {
			name string
			typ  byte
			body []byte
		}
		msgs := []hm{{"ClientHello", 1, filler(40)}, {"KeyUpdate", 24, []byte{0}}, {"KeyUpdate", 24, []byte{1}}, {"KeyUpdate", 24, []byte{2}}, {"KeyUpdate", 24, []byte{0, 0}}}
		nst := append([]byte{0, 0, 0x1c, 0x20, 1, 2, 3, 4, 8}, filler(8)...)
		nst = append(nst, 0, 16)
		nst = append(nst, filler(16)...)
		nst = append(nst, 0, 0)
		msgs = append(msgs, hm{"NewSessionTicket", 4, nst})
		for _, gm := range fg.decrypted13 {
			if gm.typ == 4 {
				msgs = append(msgs, hm{"NewSessionTicket(genuine)", 4, gm.body})
			}
		}
		msgs = append(msgs, hm{"Finished", 20, filler(32)}, hm{"NewConnectionID", 10, append([]byte{0, 5, 4}, filler(4)...)}, hm{"RequestConnectionID", 9, []byte{1}})
		for _, m := range msgs {
			for _, ms := range []struct {
				v uint16
				n string
			}{{gi.cur, "cur"}, {gi.cur + 1, "cur+1"}} {
				for l := 0; l <= len(m.body); l++ {
					// (a VALID KeyUpdate from "the peer" rotates the victim's receive keys while the genuine peer did not
					// rotate: only the forger could go on talking. It must not crash, but it may end the session.)
					in := g.forged(fmt.Sprintf("%s truncated to %d/%d at mseq=%s", m.name, l, len(m.body), ms.n)+ep,
						&forgeSpec{typ: 22, epoch: e, payload: hsMessage(m.typ, ms.v, m.body[:l])}, "auth/handshake-message", mayAbort)
					if gi.victimEst && gi.vw.is13 && (gi.thorough || l <= 2 || l == len(m.body)) {
						in.suspect = "HANG"
					}
				}
			}
		}
		// handshake fragments as in (ii) inside protected records
		for _, s := range hsShapes(gi, gi.thorough) {
			if !gi.thorough && !(gi.victimEst && gi.vw.is13) {
				// quick: the expected type and an unknown type, lengths {0,12}, message_seq {cur,cur+1}, all
				// offsets and fragment lengths (the established DTLS 1.3 endpoint gets the whole quick product)
				if (s.typ != gi.nextType && s.typ != 255) || (s.length != 0 && s.length != 12) || (s.mseq != gi.cur && s.mseq != gi.cur+1) {
					continue
				}
			}
			in := g.forged(s.String()+ep, &forgeSpec{typ: 22, epoch: e, payload: s.bytes()}, "auth/handshake-fragment", mayAbort)
			if s.isF1Shape() && s.mseq >= gi.cur {
				in.suspect = "F1"
			} else if s.isComplete() && hangSuspect(gi, s.mseq) {
				in.suspect = "HANG"
			}
		}
		// CBC: padding length byte exceeding the record (built by hand: plaintext || MAC || padding)
		if fg.suite != nil && fg.isCBC() {
			for _, pad := range []int{47, 63, 255, 32} {
				in := g.forged(fmt.Sprintf("cbc record with every byte = padding length %d", pad)+ep, &forgeSpec{kind: "cbcpad", epoch: e, pad: pad}, "auth/cbc-padding>record", mustSurvive)
				in.suspect = "F2"
			}
			for _, n := range []int{0, 1, 15, 16, 31} {
				g.forged(fmt.Sprintf("cbc record: %d bytes of content, valid MAC, maximal padding", n)+ep, &forgeSpec{kind: "cbcmaxpad", typ: 23, epoch: e, payload: filler(n)}, "auth/cbc-maxpad", mustSurvive)
			}
		}
	}
	return g.out
}

// --- (v) floods ------------------------------------------------------------------------------------

const floodN = 2000

func genFlood(gi *genInfo, which string) []*input {
	g := &gen{fam: "flood-" + which, gi: gi}
	for i := 0; i < floodN; i++ {
		switch which {
		case "epoch":
			// records of a future epoch (the next one is queueable; further ones are dropped)
			e := gi.epochNow + 1 + uint16(i%3)
			if gi.vw.is13 {
				b := append([]byte{0x2c | byte(e&3), byte(i >> 8), byte(i), 0, 24}, filler(24)...)
				g.raw(fmt.Sprintf("future-epoch unified record #%d", i), b)
				continue
			}
			g.raw(fmt.Sprintf("future-epoch record #%d epoch=%d", i, e), plain12(23, e, uint64(i), filler(24)))
		case "frag":
			// distinct handshake fragments: different message_seq / offsets, never completing a message
			ms := gi.cur + uint16(i%50)
			off := uint32(1 + 7*(i/50))
			g.raw(fmt.Sprintf("fragment #%d mseq=cur+%d off=%d", i, i%50, off),
				plain12(22, 0, uint64(0x400000+i), append(hsHeader(11, 60000, ms, off, 1000), filler(1000)...)))
		case "msg":
			// complete bogus handshake messages at consecutive message_seq starting at the expected one
			g.raw(fmt.Sprintf("complete bogus message #%d mseq=cur+%d", i, i),
				plain12(22, 0, uint64(0x500000+i), hsMessage(byte(200+i%50), gi.cur+uint16(i), filler(64))))
		case "app":
			// application-data-looking records (epoch 1 before keys exist; current epoch afterwards)
			e := uint16(1)
			if gi.epochNow > 1 {
				e = gi.epochNow
			}
			if gi.vw.is13 {
				if e < 3 {
					e = 3
				}
				b := append([]byte{0x2c | byte(e&3), byte(i >> 8), byte(i), 0, 64}, filler(64)...)
				g.raw(fmt.Sprintf("application-data-looking unified record #%d epoch=%d", i, e), b)
				continue
			}
			g.raw(fmt.Sprintf("application-data-looking record #%d epoch=%d", i, e), plain12(23, e, uint64(0x600000+i), filler(64)))
		}
	}
	return g.out
}

// catalogue builds one family.
func catalogue(fam string, gi *genInfo) []*input {
	switch fam {
	case "bytes":
		return genBytes(gi)
	case "rechdr":
		return genRecHdr(gi)
	case "hshdr":
		return genHsHdr(gi)
	case "msgtrunc":
		return genMsgTrunc(gi)
	case "small":
		return genSmall(gi)
	case "trunc":
		return genTrunc(gi)
	case "corrupt":
		return genCorrupt(gi)
	case "auth":
		return genAuth(gi)
	case "flood-epoch":
		return genFlood(gi, "epoch")
	case "flood-frag":
		return genFlood(gi, "frag")
	case "flood-msg":
		return genFlood(gi, "msg")
	case "flood-app":
		return genFlood(gi, "app")
	}
	panic("unknown family " + fam)
}

var families = []string{"bytes", "rechdr", "hshdr", "msgtrunc", "small", "trunc", "corrupt", "auth", "flood-epoch", "flood-frag", "flood-msg", "flood-app"}

func sortedKeys(m map[string]int) []string {
	k := make([]string, 0, len(m))
	for x := range m {
		k = append(k, x)
	}
	sort.Strings(k)
	return k
}
