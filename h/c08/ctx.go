// Package c08 is the check for property C08 — robustness against hostile datagrams: no datagram
// sequence from an unauthenticated sender (any handshake state) or from an authenticated peer sending
// correctly protected but malformed content makes an endpoint panic, deadlock or hold memory beyond
// its fixed limits; unparseable datagrams and protected records that fail authentication are dropped
// and the endpoint keeps serving valid traffic.
//
// Files: ctx.go (handshake variants, building the state "after k deliveries"), ref.go (independent
// reading of what a datagram is: structurally unparseable / fails authentication / may legitimately be
// fatal), gram.go (the bounded grammar of hostile datagrams), forge.go (the forger: reference record
// layer keyed with the genuine peer's keys), chain.go (chained injection and the oracle), child.go
// (isolated execution in a child process so that a panic in a library goroutine is attributed to ONE
// input and reported under the check's own key), c08_test.go (case list).
package c08

import (
	"fmt"
	"time"

	dtls "github.com/pion/dtls/v3"
	"github.com/pion/dtls/v3/zzverif/checks"
	"github.com/pion/dtls/v3/zzverif/world"
)

// variant is a handshake flavour plus what C08 needs to know about it.
type variant struct {
	checks.Variant
	// full: every quiescent point of the default run is a context. Otherwise (cipher-suite variants that
	// exist only to reach another decrypt path) only the points at which the victim holds record keys.
	full bool
	kx   string // key-exchange context of ClientKeyExchange/ServerKeyExchange: "ecdhe", "psk", "ecdhepsk", "13"
	// maxSteps is a fixed upper bound on the number of deliveries of the default run (the case list must
	// not depend on measured quantities: certificate sizes differ between worker processes).
	maxSteps int
	// suitePoints are the contexts of a non-full variant.
	suitePoints []int
}

var pskKey = []byte{0xAB, 0xC1, 0x23, 0x45, 0x67}

func suiteVariant(name string, id dtls.CipherSuiteID, psk bool) checks.Variant {
	c := world.Cfg{Suites: []dtls.CipherSuiteID{id}}
	if psk {
		c.Cred, c.PSK = "psk", pskKey
	}
	return checks.Variant{Name: name, C: c, S: c}
}

func allVariants() []variant {
	byName := map[string]checks.Variant{}
	for _, v := range checks.AllVariants() {
		byName[v.Name] = v
	}
	v13 := func(c world.Cfg) world.Cfg { c.MinV, c.MaxV = 13, 13; return c }
	s13 := func(name string, id dtls.CipherSuiteID) checks.Variant {
		return checks.Variant{Name: name, V13: true, C: v13(world.Cfg{Suites: []dtls.CipherSuiteID{id}}),
			S: v13(world.Cfg{Suites: []dtls.CipherSuiteID{id}, SkipHelloVerify: true})}
	}
	p12, p13 := []int{4, 5, 6}, []int{3, 4, 5, 6}
	return []variant{
		{Variant: byName["12-cert"], full: true, kx: "ecdhe", maxSteps: 6},
		{Variant: byName["12-psk"], full: true, kx: "psk", maxSteps: 6},
		{Variant: byName["12-ecdhepsk"], full: true, kx: "ecdhepsk", maxSteps: 6},
		{Variant: byName["12-clientauth"], full: true, kx: "ecdhe", maxSteps: 6},
		{Variant: byName["12-cid"], full: true, kx: "ecdhe", maxSteps: 6},
		{Variant: byName["12-mtu100"], full: true, kx: "ecdhe", maxSteps: 20},
		// a server that accepts DTLS 1.2 and 1.3 decides the version from the first ClientHello: its own code path
		{Variant: checks.Variant{Name: "12-sdual", C: world.Cfg{MinV: 12, MaxV: 12}, S: world.Cfg{MinV: 12, MaxV: 13}}, full: true, kx: "ecdhe", maxSteps: 6},
		{Variant: byName["13-direct"], full: true, kx: "13", maxSteps: 8},
		{Variant: byName["13-hrr"], full: true, kx: "13", maxSteps: 11},
		// one variant per remaining record-protection path ("for every cipher suite's decrypt path")
		{Variant: suiteVariant("12-ccm", dtls.TLS_ECDHE_ECDSA_WITH_AES_128_CCM, false), kx: "ecdhe", maxSteps: 6, suitePoints: p12},
		{Variant: suiteVariant("12-ccm8", dtls.TLS_ECDHE_ECDSA_WITH_AES_128_CCM_8, false), kx: "ecdhe", maxSteps: 6, suitePoints: p12},
		{Variant: suiteVariant("12-cbcsha", dtls.TLS_ECDHE_ECDSA_WITH_AES_256_CBC_SHA, false), kx: "ecdhe", maxSteps: 6, suitePoints: p12},
		{Variant: suiteVariant("12-chacha", dtls.TLS_ECDHE_ECDSA_WITH_CHACHA20_POLY1305_SHA256, false), kx: "ecdhe", maxSteps: 6, suitePoints: p12},
		{Variant: suiteVariant("12-gcm384", dtls.TLS_ECDHE_ECDSA_WITH_AES_256_GCM_SHA384, false), kx: "ecdhe", maxSteps: 6, suitePoints: p12},
		{Variant: suiteVariant("12-pskcbc", dtls.TLS_PSK_WITH_AES_128_CBC_SHA256, true), kx: "psk", maxSteps: 6, suitePoints: p12},
		{Variant: s13("13-aes256", dtls.TLS_AES_256_GCM_SHA384), kx: "13", maxSteps: 8, suitePoints: p13},
		{Variant: s13("13-chacha", dtls.TLS_CHACHA20_POLY1305_SHA256), kx: "13", maxSteps: 8, suitePoints: p13},
	}
}

func findVariant(name string) (variant, bool) {
	for _, v := range allVariants() {
		if v.Name == name {
			return v, true
		}
	}
	return variant{}, false
}

// pointEst is the pseudo-position "established": the default run has been delivered completely and one
// genuine payload has flowed each way.
const pointEst = -1

func pointName(k int) string {
	if k == pointEst {
		return "est"
	}
	return fmt.Sprintf("p%d", k)
}

// genuinePayloads are the application payloads exchanged before an "est" context is attacked: 12 and 16
// bytes make payload+MAC a whole number of blocks for the SHA-1 and the SHA-256 CBC suites, so that the
// captured record ends in a block of pure padding (needed by the key-less CBC construction).
var genuinePayloads = [][]byte{[]byte("0123456789ab"), []byte("0123456789abcdef")}

// ctx is one built state: the association after k deliveries of the default run.
type ctx struct {
	w      *world.World
	v      variant
	pr     *world.Pair
	n      *world.Net
	victim *world.Endpoint
	peer   *world.Endpoint
	k      int
	steps  int // deliveries actually performed
	// reachable is false if the default run ended before k deliveries.
	reachable bool
}

// build constructs the state (variant, point k) inside world w.
func build(w *world.World, p *world.PKI, v variant, victimIsClient bool, k int) (*ctx, error) {
	pr, err := v.Setup(w, p)
	if err != nil {
		return nil, err
	}
	cx := &ctx{w: w, v: v, pr: pr, k: k, reachable: true}
	cx.victim, cx.peer = pr.S, pr.C
	if victimIsClient {
		cx.victim, cx.peer = pr.C, pr.S
	}
	w.CIDLenHint = func(src world.Addr) int { return pr.CIDLenFor(src) }
	cx.n = world.NewNet(w, world.ClientAddr, nil)
	if k == pointEst {
		if err := cx.n.Pump(60*time.Second, pr.BothDone); err != nil || !pr.BothOK() {
			return nil, fmt.Errorf("default run did not complete: %v client=%v server=%v", err, pr.C.HS, pr.S.HS)
		}
		cx.n.Flush()
		for i, pl := range genuinePayloads {
			from, to := pr.C, pr.S
			if i%2 == 1 {
				from, to = pr.S, pr.C
			}
			for dir := 0; dir < 2; dir++ {
				got, rerr, werr := pr.Transfer(cx.n, from, to, pl, 30*time.Second)
				if rerr != nil || werr != nil || string(got) != string(pl) {
					return nil, fmt.Errorf("genuine transfer before the attack failed: read=%v write=%v", rerr, werr)
				}
				from, to = to, from
			}
		}
		cx.n.Flush()
		cx.steps = len(cx.n.Events)
		return cx, nil
	}
	for cx.steps < k {
		w.Settle()
		if w.Head() == nil {
			cx.reachable = false
			break
		}
		cx.n.Step()
		cx.steps++
	}
	w.Settle()
	return cx, nil
}

// established reports whether e's handshake call has returned nil.
func established(e *world.Endpoint) bool { return e.HS != nil && e.HS.OK() }
