package c08

import (
	"context"
	"errors"
	"fmt"
	"net"
	"os"
	"testing"
	"time"

	dtls "github.com/pion/dtls/v3"
	"github.com/pion/dtls/v3/pkg/protocol"
	"github.com/pion/dtls/v3/zzverif/run"
	"github.com/pion/dtls/v3/zzverif/world"
)

// TestC08Listener drives hostile datagrams through the library's real UDP listener (dtls.Listen: its read
// loop, per-connection packet buffers and accept queue are not reachable over the in-memory transport of
// the other parts). It needs loopback UDP sockets, which the repository's own test suite uses as well.
//
// Case = (version, position in {before the ClientHello, right after the handshake, after one payload},
// datagram from a small catalogue of "not a DTLS record" datagrams — zero-length, one byte, a bare record
// header, 1500 zero bytes) sent from the client's own source address (what an off-path sender can spoof).
// Oracle: the handshake completes and the next genuine payloads written by the client are returned by the
// server's Read. Only positive evidence counts: a Read that RETURNS something else than the payload (EOF,
// an error, other bytes) is a violation; anything that merely does not happen within the generous
// wall-clock budget (30 s) is reported as an incomplete case, never as a violation.

type lspec struct {
	v13  bool
	pos  string
	name string
	data []byte
}

func listenerCase(p *world.PKI, sp lspec) (o run.Outcome) {
	o.NonTrivial, o.Evals = true, 1
	o.Class = "listener:" + sp.pos
	opts := []dtls.ServerOption{dtls.WithCertificates(p.ServerECDSA)}
	copts := []dtls.ClientOption{dtls.WithInsecureSkipVerify(true)}
	if sp.v13 {
		opts = append(opts, dtls.WithMinVersion(protocol.Version1_3), dtls.WithMaxVersion(protocol.Version1_3))
		copts = append(copts, dtls.WithMinVersion(protocol.Version1_3), dtls.WithMaxVersion(protocol.Version1_3))
	}
	incomplete := func(why string) run.Outcome {
		o.Skip, o.Class = true, "listener:incomplete:"+why
		return o
	}
	ln, err := dtls.ListenWithOptions("udp", &net.UDPAddr{IP: net.IPv4(127, 0, 0, 1)}, opts...)
	if err != nil {
		return incomplete("listen")
	}
	defer ln.Close()
	pc, err := net.ListenUDP("udp", &net.UDPAddr{IP: net.IPv4(127, 0, 0, 1)})
	if err != nil {
		return incomplete("socket")
	}
	defer pc.Close()
	ctx, cancel := context.WithTimeout(context.Background(), 30*time.Second)
	defer cancel()
	if sp.pos == "before-clienthello" {
		_, _ = pc.WriteTo(sp.data, ln.Addr())
	}
	srvCh := make(chan *dtls.Conn, 1)
	go func() {
		c, aerr := ln.Accept()
		if aerr != nil {
			return
		}
		dc := c.(*dtls.Conn)
		_ = dc.HandshakeContext(ctx)
		srvCh <- dc
	}()
	cl, err := dtls.ClientWithOptions(pc, ln.Addr(), copts...)
	if err != nil {
		return incomplete("client")
	}
	defer cl.Close()
	if err := cl.HandshakeContext(ctx); err != nil {
		if errors.Is(err, context.DeadlineExceeded) || os.IsTimeout(err) {
			return incomplete("handshake-budget")
		}
		o.Key = "listener:handshake-failed-after-hostile-datagram:" + sp.name
		o.Violation = fmt.Sprintf("listener/%s: after the datagram %q (%d bytes) from the client's own address %s, the client's handshake fails: %v", verName(sp.v13), sp.name, len(sp.data), sp.pos, err)
		return o
	}
	var srv *dtls.Conn
	select {
	case srv = <-srvCh:
	case <-ctx.Done():
		return incomplete("accept-budget")
	}
	defer srv.Close()
	expect := func(pay string) (bool, run.Outcome) {
		if _, werr := cl.Write([]byte(pay)); werr != nil {
			return false, incomplete("client-write")
		}
		_ = srv.SetReadDeadline(time.Now().Add(30 * time.Second))
		b := make([]byte, 256)
		n, rerr := srv.Read(b)
		var ne net.Error
		if rerr != nil && errors.As(rerr, &ne) && ne.Timeout() {
			return false, incomplete("read-budget")
		}
		if rerr != nil || string(b[:n]) != pay {
			o.Key = "listener:valid-traffic-not-served-after-hostile-datagram:" + sp.name
			o.Violation = fmt.Sprintf("listener/%s: after the datagram %q (%d bytes) sent %s from the client's own address, the server's Read returned (%q, %v) for the genuine payload %q", verName(sp.v13), sp.name, len(sp.data), sp.pos, b[:n], rerr, pay)
			return false, o
		}
		return true, o
	}
	if sp.pos == "after-one-payload" {
		if ok, out := expect("zero"); !ok {
			return out
		}
	}
	if sp.pos != "before-clienthello" {
		_, _ = pc.WriteTo(sp.data, ln.Addr())
	}
	for _, pay := range []string{"one", "two", "three"} {
		if ok, out := expect(pay); !ok {
			return out
		}
	}
	return o
}

func verName(v13 bool) string {
	if v13 {
		return "dtls1.3"
	}
	return "dtls1.2"
}

func TestC08Listener(t *testing.T) {
	p := world.GetPKI(t)
	cat := []struct {
		name string
		d    []byte
	}{
		{"zero-length", []byte{}},
		{"one-byte-00", []byte{0}},
		{"one-byte-16", []byte{0x16}},
		{"bare-record-header", []byte{0x17, 0xfe, 0xfd, 0, 1, 0, 0, 0, 0, 0, 9, 0, 0}},
		{"1500-zero-bytes", make([]byte, 1500)},
	}
	var cases []run.Case
	for _, v13 := range []bool{false, true} {
		for _, pos := range []string{"before-clienthello", "after-handshake", "after-one-payload"} {
			for _, c := range cat {
				sp := lspec{v13: v13, pos: pos, name: c.name, data: c.d}
				cases = append(cases, run.Case{ID: fmt.Sprintf("listener/%s/%s/%s", verName(v13), pos, c.name), Run: func(*testing.T) run.Outcome { return listenerCase(p, sp) }})
			}
		}
	}
	run.KeepGC = true
	run.Main(t, "C08", cases, map[string]any{"layer": "real UDP listener on loopback", "catalogue": len(cat)})
}
