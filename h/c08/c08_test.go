package c08

import (
	"fmt"
	"os"
	"strconv"
	"strings"
	"testing"
	"time"

	"github.com/pion/dtls/v3/zzverif/run"
	"github.com/pion/dtls/v3/zzverif/world"
)

// C08 — robustness against hostile datagrams.
//
// Case = (handshake variant, attacked endpoint, quiescent point k of the default run or "est", input
// family). The state is built once per association; the family's whole catalogue is injected one
// datagram at a time (settle + liveness + memory bounds after each); then the withheld genuine
// datagrams are delivered FIFO and one payload must flow each way. Inputs that must be dropped and
// inputs that may legitimately abort are chained on separate associations. When an input ends the
// association, the state is rebuilt and the chain continues behind it. Suspect inputs (relatives of the
// three historical crashes) run one per association in a child process ("probe" cases).

func points(v variant, thorough bool) []int {
	var ks []int
	if v.full {
		for k := 0; k <= v.maxSteps; k++ {
			ks = append(ks, k)
		}
	} else {
		ks = append(ks, v.suitePoints...)
	}
	return append(ks, pointEst)
}

func familiesFor(v variant, thorough bool) []string {
	if v.full {
		return append(append([]string(nil), families...), "probe")
	}
	f := []string{"small", "corrupt", "auth", "probe"}
	if thorough {
		f = append(f, "trunc", "rechdr")
	}
	return f
}

func allSpecs(thorough bool, seed uint64) []spec {
	var out []spec
	for _, v := range allVariants() {
		for _, cl := range []bool{true, false} {
			for _, k := range points(v, thorough) {
				if v.Name == "12-sdual" && (cl || k == pointEst) {
					// this variant exists for the server's version-selection path (first ClientHello onwards);
					// its client and its established state are those of 12-cert
					continue
				}
				for _, f := range familiesFor(v, thorough) {
					out = append(out, spec{v: v, victimIsClient: cl, k: k, fam: f, thorough: thorough, seed: seed})
					if k == pointEst && (f == "small" || f == "rechdr" || f == "hshdr" || f == "corrupt" || f == "auth") {
						out = append(out, spec{v: v, victimIsClient: cl, k: k, fam: f, thorough: thorough, seed: seed, wf: true})
					}
				}
			}
		}
	}
	return out
}

// quickRedundant: in the quick tier a context whose last delivery was not addressed to the victim is
// skipped (the victim's own state is the one of the previous point); the thorough tier runs them all.
func quickRedundant(t *testing.T, p *world.PKI, sp spec) bool {
	if sp.thorough || sp.k <= 0 {
		return false
	}
	red := false
	world.Run(t, sp.seed, func(w *world.World) {
		pr, err := sp.v.Setup(w, p)
		if err != nil {
			return
		}
		defer pr.CloseAll()
		n := world.NewNet(w, world.ClientAddr, nil)
		var last *world.Datagram
		for i := 0; i < sp.k; i++ {
			w.Settle()
			last = w.Head()
			if last == nil {
				return
			}
			n.Step()
		}
		victim := world.ServerAddr
		if sp.victimIsClient {
			victim = world.ClientAddr
		}
		red = last != nil && last.Dst != victim
	})
	return red
}

var redundantMemo = map[string]bool{}

func runSpec(t *testing.T, p *world.PKI, sp spec) (o run.Outcome) {
	if !sp.thorough && sp.k > 0 {
		mk := fmt.Sprintf("%s/%v/%d", sp.v.Name, sp.victimIsClient, sp.k)
		red, ok := redundantMemo[mk]
		if !ok {
			red = quickRedundant(t, p, sp)
			redundantMemo[mk] = red
		}
		if red {
			o.Skip = true
			o.Class = "skip:quick-tier:victim-unchanged-since-previous-point"
			return o
		}
	}
	var res *result
	if os.Getenv("C08_TIMING") != "" {
		t0 := time.Now()
		defer func() {
			fmt.Fprintf(os.Stderr, "TIMING %s %.3fs injected=%d assoc=%d legit=%d accepted=%d stalled=%d\n", sp.id(), time.Since(t0).Seconds(), o.Evals, o.Counters["associations_built"], o.Counters["legit_aborts"], o.Counters["inputs_accepted_as_next_handshake_message"], o.Counters["read_loop_stopped_consuming"])
		}()
	}
	if sp.fam == "probe" {
		res = runIsolated(sp)
	} else {
		r := &runner{t: t, p: p, sp: sp, verbose: os.Getenv("VERIF_VERBOSE") != ""}
		r.run()
		res = r.res
	}
	if res.skip {
		o.Skip = true
		o.Class = "skip:" + res.skipWhy
		return o
	}
	o.Key, o.Violation = res.keyAndText()
	o.Evals, o.Distinct = res.injected, res.injected
	o.NonTrivial = res.injected > 0
	o.States, o.Transitions = res.states, res.trans
	state := "all-inputs-survived"
	switch {
	case o.Violation != "":
		state = "VIOLATION"
	case res.legitAbort > 0:
		state = "some-inputs-ended-the-association-legitimately"
	}
	o.Class = sp.fam + ":" + state
	o.Counters = map[string]int{
		"injected": res.injected, "associations_built": res.segments, "survived_must_survive_inputs": res.survivedMS,
		"survived_may_abort_inputs": res.survivedMA, "legit_aborts": res.legitAbort, "skipped_same_class_as_two_kills": res.skippedCls,
		"chains_ending_with_completed_handshake_and_payloads": res.finalOK, "read_errors_surfaced_to_application": res.readErrs,
		"injected:" + sp.fam: res.injected,
	}
	for k, v := range res.counters {
		o.Counters[k] += v
	}
	for k, v := range res.classes {
		o.Counters["class:"+k] += v
	}
	o.Sample = map[string]any{"case": sp.id(), "catalogue": res.catalogue, "injected": res.injected, "associations": res.segments,
		"legit_aborts": res.legitAbort, "final_ok": res.finalOK, "outcome": o.Class}
	return o
}

func TestC08(t *testing.T) {
	env := run.GetEnv()
	p := world.GetPKI(t)
	seed := env.Seed + 1
	specs := allSpecs(env.Thorough(), seed)

	if id := os.Getenv("C08_CHILD"); id != "" {
		from, _ := strconv.Atoi(os.Getenv("C08_FROM"))
		for _, sp := range specs {
			if sp.id() == id {
				progress.child = true
				r := &runner{t: t, p: p, sp: sp}
				r.childMain(from)
				return
			}
		}
		t.Fatalf("child: case %q not found", id)
	}

	if env.Out != "" {
		if f, err := os.OpenFile(env.Out+".c08progress", os.O_CREATE|os.O_WRONLY|os.O_TRUNC, 0o644); err == nil {
			progress.f = f
			defer f.Close()
		}
	}
	var cases []run.Case
	for _, sp := range specs {
		sp := sp
		cases = append(cases, run.Case{ID: sp.id(), Run: func(t *testing.T) run.Outcome { return runSpec(t, p, sp) }})
	}
	nv, nfull := 0, 0
	for _, v := range allVariants() {
		nv++
		if v.full {
			nfull++
		}
	}
	run.Main(t, "C08", cases, map[string]any{
		"variants": nv, "variants_with_every_point": nfull, "families": strings.Join(families, ","), "flood_length": floodN,
		"tier_bounds": "quick: byte strings <=1 all + structured length 2; pairwise-complete + reduced full products for record/handshake headers; truncation/corruption subsets; contexts whose last delivery did not reach the victim skipped. thorough: all 65,793 byte strings, full header products, every truncation, every corruption, every context",
		"limits":      fmt.Sprintf("queued<=%d fragment buffer<=%d bytes/%d fragments; handshake cache<=default-run maximum+%d", limitQueued, limitFragBytes, limitFragCount, cacheSlack),
	})
}
