package c08

import (
	"bytes"
	"encoding/json"
	"errors"
	"fmt"
	"os"
	"os/exec"
	"strconv"
	"strings"
	"time"
)

// Isolated execution. A panic in a library goroutine cannot be recovered: it kills the process. The
// inputs of the three historical single-datagram crashes (and their relatives) therefore run in a CHILD
// process (the same test binary, C08_CHILD=<case id>), one input per association, with a progress line
// before and after every input. If the child dies, the parent knows the input, derives the cause key
// from the panic site, and restarts the child behind that input. The worker itself never dies of them.

const childTag = "C08P"

type childResult struct {
	Skip       bool           `json:"skip"`
	SkipWhy    string         `json:"skip_why"`
	Catalogue  int            `json:"catalogue"`
	Injected   int            `json:"injected"`
	SurvivedMS int            `json:"survived_ms"`
	SurvivedMA int            `json:"survived_ma"`
	LegitAbort int            `json:"legit_abort"`
	FinalOK    int            `json:"final_ok"`
	Findings   [][2]string    `json:"findings"`
	Classes    map[string]int `json:"classes"`
	Counters   map[string]int `json:"counters"`
}

// childMain runs in the child: the probe list from index `from`, one association per input.
func (r *runner) childMain(from int) {
	r.res = &result{classes: map[string]int{}}
	r.killsByClass = map[string]int{}
	out := os.Stdout
	list, reachable, err := r.prepare()
	cr := childResult{}
	switch {
	case err != nil:
		r.res.add("harness:prepare-failed", err.Error())
	case !reachable:
		cr.Skip, cr.SkipWhy = true, "point beyond the end of the default run"
	case len(list) == 0:
		cr.Skip, cr.SkipWhy = true, "no suspect input in this context"
	default:
		r.cacheLimit = cacheMax(r.t, r.p, r.sp.v, r.sp.seed) + cacheSlack
		r.onBegin = func(i int, in *input) {
			fmt.Fprintf(out, "%s BEGIN %d %s %s %s %s\n", childTag, i, in.suspect, in.id(), strings.ReplaceAll(in.class, " ", "_"), in.desc)
		}
		r.onEnd = func(i int, in *input, status string) {
			fmt.Fprintf(out, "%s END %d %s\n", childTag, i, status)
		}
		for i := from; i < len(list); {
			i = r.segment(list, i, true)
		}
	}
	r.finish()
	cr.Catalogue, cr.Injected = len(list), r.res.injected
	cr.SurvivedMS, cr.SurvivedMA, cr.LegitAbort, cr.FinalOK = r.res.survivedMS, r.res.survivedMA, r.res.legitAbort, r.res.finalOK
	cr.Classes, cr.Counters = r.res.classes, r.res.counters
	for _, f := range r.res.findings {
		cr.Findings = append(cr.Findings, [2]string{f.key, f.text})
	}
	b, _ := json.Marshal(cr)
	fmt.Fprintf(out, "%s RESULT %s\n", childTag, b)
}

// panicKey maps a dead child's output to a cause key.
func panicKey(suspect, class, out string) (key, site string) {
	line := ""
	for _, l := range strings.Split(out, "\n") {
		if strings.HasPrefix(l, "panic:") || strings.HasPrefix(l, "fatal error:") {
			line = strings.TrimSpace(l)
			break
		}
	}
	for _, l := range strings.Split(out, "\n") {
		if strings.Contains(l, "github.com/pion/dtls/v3") && strings.Contains(l, "(") && !strings.Contains(l, "zzverif") && !strings.HasPrefix(l, "\t") {
			site = strings.TrimSpace(l)
			if j := strings.LastIndex(site, "("); j > 0 {
				site = site[:j]
			}
			break
		}
	}
	switch {
	case strings.Contains(site, "fragmentbuffer.(*FragmentBuffer).Pop"):
		return keyF1, site
	case strings.Contains(site, "ciphersuite.(*CBC).Decrypt"):
		return keyF2, site
	case strings.Contains(site, "(*MessageClientKeyExchange).Unmarshal"):
		return keyF3, site
	}
	if line == "" {
		line = "process died without a panic line"
	}
	s := strings.TrimPrefix(site, "github.com/pion/dtls/v3/")
	k := "panic-in-library:" + s + ":" + class
	if site == "" {
		k = "process-died:" + class + ":" + line
	}
	return strings.ReplaceAll(strings.ReplaceAll(k, " ", "_"), "+", "_"), site
}

// runIsolated is the parent side: it runs the probe case in child processes and merges the results.
func runIsolated(sp spec) *result {
	res := &result{classes: map[string]int{}}
	exe, err := os.Executable()
	if err != nil {
		res.add("harness:no-executable", err.Error())
		return res
	}
	from := 0
	deathsByKey := map[string]int{}
	for spawn := 0; spawn < 400; spawn++ {
		cmd := exec.Command(exe, "-test.run", "^TestC08$", "-test.count", "1", "-test.timeout", "20m")
		env := []string{}
		for _, e := range os.Environ() {
			if strings.HasPrefix(e, "VCHECK_OUT=") || strings.HasPrefix(e, "VCHECK_CASE=") || strings.HasPrefix(e, "VCHECK_SHARD=") ||
				strings.HasPrefix(e, "VCHECK_NSHARDS=") || strings.HasPrefix(e, "VCHECK_FROM=") || strings.HasPrefix(e, "C08_") || strings.HasPrefix(e, "VERIF_VERBOSE=") {
				continue
			}
			env = append(env, e)
		}
		tier := "quick"
		if sp.thorough {
			tier = "thorough"
		}
		env = append(env, "C08_CHILD="+sp.id(), "C08_FROM="+strconv.Itoa(from), "VCHECK_TIER="+tier, "VERIF_SEED="+strconv.FormatUint(sp.seed-1, 10),
			"GOMAXPROCS=1", "GODEBUG=asyncpreemptoff=1")
		cmd.Env = env
		var buf bytes.Buffer
		cmd.Stdout, cmd.Stderr = &buf, &buf
		runErr := runWithTimeout(cmd, childWallLimit)
		out := buf.String()
		// parse progress
		var cur struct {
			idx                      int
			open                     bool
			suspect, id, class, rest string
		}
		gotResult := false
		for _, l := range strings.Split(out, "\n") {
			if !strings.HasPrefix(l, childTag+" ") {
				continue
			}
			f := strings.SplitN(l, " ", 4)
			if len(f) < 3 {
				continue
			}
			switch f[1] {
			case "BEGIN":
				cur.idx, _ = strconv.Atoi(f[2])
				cur.open = true
				if len(f) == 4 {
					p := strings.SplitN(f[3], " ", 4)
					if len(p) == 4 {
						cur.suspect, cur.id, cur.class, cur.rest = p[0], p[1], p[2], p[3]
					}
				}
			case "END":
				cur.open = false
			case "RESULT":
				gotResult = true
				var cr childResult
				if json.Unmarshal([]byte(strings.TrimSpace(l[len(childTag)+len(" RESULT "):])), &cr) == nil {
					if cr.Skip && spawn == 0 {
						res.skip, res.skipWhy = true, cr.SkipWhy
					}
					if cr.Catalogue > res.catalogue {
						res.catalogue = cr.Catalogue
					}
					res.injected += cr.Injected
					res.survivedMS += cr.SurvivedMS
					res.survivedMA += cr.SurvivedMA
					res.legitAbort += cr.LegitAbort
					res.finalOK += cr.FinalOK
					for k, v := range cr.Classes {
						res.classes[k] += v
					}
					for k, v := range cr.Counters {
						res.count(k, v)
					}
					for _, fd := range cr.Findings {
						res.add(fd[0], fd[1])
					}
				}
			}
		}
		res.segments++
		if gotResult {
			return res
		}
		if !cur.open {
			res.add("harness:child-died-outside-an-input", fmt.Sprintf("case %s: child exited (%v) without a result and not inside an input: %s", sp.id(), runErr, clip(tailOf(out, 1200), 1200)))
			return res
		}
		class := cur.class
		key, site := panicKey(cur.suspect, class, out)
		switch {
		case strings.Contains(out, childTag+" STORM"):
			key, site = "emission-storm:"+versOf(sp)+":"+keyClass(class), "emission storm"
		case runErr == errChildTimeout:
			key, site = "hang:"+versOf(sp)+":"+keyClass(class), "no progress for "+childWallLimit.String()+" of wall-clock time (a goroutine spinning or blocked on a mutex: the bubble never settles)"
		}
		deathsByKey[key]++
		res.injected++
		res.add(key, fmt.Sprintf("case %s: the process ended (panic in a library goroutine / stopped by the harness: %s) on input %s [class %s; %s]: %s", sp.id(), site, cur.id, cur.class, cur.rest, clip(panicLines(out), 500)))
		res.count("child_deaths", 1)
		from = cur.idx + 1
		if deathsByKey[key] >= 3 || (runErr == errChildTimeout && deathsByKey[key] >= 2) {
			// the same defect keeps killing: stop probing this context (the finding is reported)
			res.count("probe_inputs_not_run_after_3_identical_deaths", 1)
			return res
		}
	}
	return res
}

// childWallLimit is a harness watchdog only (never part of an oracle verdict other than "it hangs").
const childWallLimit = 30 * time.Second

var errChildTimeout = errors.New("child timed out")

func runWithTimeout(cmd *exec.Cmd, d time.Duration) error {
	if err := cmd.Start(); err != nil {
		return err
	}
	done := make(chan error, 1)
	go func() { done <- cmd.Wait() }()
	select {
	case err := <-done:
		return err
	case <-time.After(d):
		_ = cmd.Process.Kill()
		<-done
		return errChildTimeout
	}
}

func versOf(sp spec) string {
	if sp.v.V13 {
		return "dtls1.3"
	}
	return "dtls1.2"
}

func keyClass(c string) string {
	return strings.ReplaceAll(strings.ReplaceAll(c, " ", "_"), "+", "_")
}

func tailOf(s string, n int) string {
	if len(s) > n {
		return s[len(s)-n:]
	}
	return s
}

// panicLines keeps the panic message only (no goroutine numbers, no addresses: the text must be
// identical on every re-execution).
func panicLines(out string) string {
	for _, l := range strings.Split(out, "\n") {
		if strings.HasPrefix(l, "panic:") || strings.HasPrefix(l, "fatal error:") {
			return strings.TrimSpace(l)
		}
		if strings.HasPrefix(l, childTag+" STORM") {
			return strings.TrimSpace(strings.TrimPrefix(l, childTag+" "))
		}
	}
	return "(no panic line)"
}
