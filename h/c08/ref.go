package c08

import (
	"encoding/binary"
	"fmt"
)

// Independent reading of "what is this datagram" (never calls a pion decoder). It decides which half of
// the property applies to an UNAUTHENTICATED input:
//
//   - mustSurvive: the datagram cannot be parsed as DTLS records (structurally), or its first record is a
//     protected record that cannot authenticate (garbage or corrupted ciphertext), or — DTLS 1.3 only — its
//     first byte is neither a plaintext content type nor a unified header (RFC 9147 §4.1: "MUST be
//     rejected as if it had failed deprotection"). The property text is explicit: dropped, and the
//     endpoint keeps serving valid traffic.
//   - mayAbort: the first record is a structurally complete, unprotected (epoch 0) record: an alert, a
//     handshake fragment, a ChangeCipherSpec, application data in epoch 0, an unknown content type or
//     version under DTLS 1.2 (RFC 5246 §6 says unexpected_message, RFC 6347 §4.1.2.7 says SHOULD discard:
//     both readings exist). The endpoint may legitimately abort (fatal alert); only "no panic, no
//     deadlock, no leak, bounded memory" is asserted, and nothing about later progress.

type verdict int

const (
	mustSurvive verdict = iota
	mayAbort
)

func (v verdict) String() string {
	if v == mustSurvive {
		return "must-survive"
	}
	return "may-abort"
}

// view is what the classifier knows about the victim.
type view struct {
	is13   bool
	cidLen int  // length of the CID the victim expects in inbound tls12_cid records / unified headers (0 = none)
	est    bool // the victim's handshake has completed (every genuine record is protected from now on)
}

func isUnifiedFirst(b byte) bool { return b&0xe0 == 0x20 }

// classify returns a coarse class label (used for statistics and for "same class already killed this
// context" bookkeeping) and the verdict for an unauthenticated datagram.
func classify(vw view, d []byte) (string, verdict) {
	if len(d) == 0 {
		return "empty", mustSurvive
	}
	first := d[0]
	if isUnifiedFirst(first) {
		off := 1
		if first&0x10 != 0 {
			off += vw.cidLen
		}
		if first&0x08 != 0 {
			off += 2
		} else {
			off++
		}
		n := len(d) - off
		if first&0x04 != 0 {
			if len(d) < off+2 {
				return "unified/short-header", mustSurvive
			}
			n = int(binary.BigEndian.Uint16(d[off:]))
			off += 2
		}
		if len(d) < off {
			return "unified/short-header", mustSurvive
		}
		if len(d) < off+n {
			return "unified/short-body", mustSurvive
		}
		if n < 16 {
			return "unified/body<tag", mustSurvive
		}
		// complete ciphertext record: unauthenticated bytes cannot authenticate
		return "unified/auth-fail", mustSurvive
	}
	hdr := 13
	if first == 25 {
		hdr += vw.cidLen
	}
	isCID := first == 25 && vw.cidLen > 0 // without a negotiated CID, 25 is just an unknown content type
	if len(d) < hdr {
		return fmt.Sprintf("legacy/short-header/%s", ctClass(first, vw.is13)), mustSurvive
	}
	n := int(binary.BigEndian.Uint16(d[hdr-2:]))
	if len(d) < hdr+n {
		return fmt.Sprintf("legacy/short-body/%s", ctClass(first, vw.is13)), mustSurvive
	}
	epoch := binary.BigEndian.Uint16(d[3:5])
	ver := [2]byte{d[1], d[2]}
	known13 := first == 21 || first == 22 || first == 26
	if vw.is13 && !known13 {
		return "record13/first-byte-not-plaintext-type", mustSurvive
	}
	if epoch != 0 || isCID {
		// a protected record (any epoch >= 1, or a tls12_cid record): whatever the victim's key state, bytes
		// that were not produced with the keys cannot authenticate
		if first == 20 {
			// ChangeCipherSpec is the one record pion accepts unprotected in epoch >= 1. RFC 5246 protects it
			// like any record of its epoch, so on an established connection an unprotected one "fails
			// authentication". During the handshake a ChangeCipherSpec with a non-zero epoch field is read
			// like any other unauthenticated ChangeCipherSpec: it may abort.
			if vw.est {
				return "protected/ccs-unprotected", mustSurvive
			}
			return "plain/ccs-epoch-nonzero", mayAbort
		}
		return "protected/auth-fail", mustSurvive
	}
	if ver != [2]byte{0xfe, 0xfd} && ver != [2]byte{0xfe, 0xff} {
		return "plain/bad-version", mayAbort
	}
	switch first {
	case 20:
		return "plain/ccs", mayAbort
	case 21:
		return "plain/alert", mayAbort
	case 22:
		// A handshake record whose body does not even start with a complete handshake fragment (fewer than
		// 12 bytes for the fragment header, or a fragment_length that exceeds what is left in the record) is
		// not a decodable DTLS record: "decode errors are logged and dropped" (RFC 6347 4.1.2.7; the
		// bufferHandshakeRecord mechanism the property names). Once a first fragment decodes, the endpoint may
		// act on it (garbage behind it or not), so the record may legitimately abort.
		body := d[hdr : hdr+n]
		if len(body) < 12 {
			return "plain/handshake-undecodable", mustSurvive
		}
		if fl := int(body[9])<<16 | int(body[10])<<8 | int(body[11]); fl > len(body)-12 {
			return "plain/handshake-undecodable", mustSurvive
		}
		return "plain/handshake", mayAbort
	case 23:
		return "plain/appdata-epoch0", mayAbort
	case 26:
		return "plain/ack", mayAbort
	}
	return "plain/unknown-type", mayAbort
}

// walkVerdict reads the datagram record by record: it may abort if ANY structurally complete record of
// it is an unprotected record that may abort (an implementation may process the records in front of a
// broken one, or drop the datagram as a whole: both are fine); otherwise it must survive. The class is
// that of the first record.
func walkVerdict(vw view, d []byte) (string, verdict) {
	cl, vd := classify(vw, d)
	rest := d
	for i := 0; i < 64 && len(rest) > 0; i++ {
		c, v := classify(vw, rest)
		if v == mayAbort {
			if i > 0 {
				cl += "+later-unprotected-record"
			}
			return cl, mayAbort
		}
		n := recordLen(vw, rest)
		if n <= 0 || isBroken(c) {
			break
		}
		rest = rest[n:]
	}
	return cl, vd
}

func isBroken(class string) bool {
	switch class {
	case "unified/short-header", "unified/short-body", "unified/body<tag", "empty":
		return true
	}
	return len(class) > 13 && (class[:13] == "legacy/short-")
}

// recordLen is the length of the first structurally complete record of d (0 if there is none).
func recordLen(vw view, d []byte) int {
	if len(d) == 0 {
		return 0
	}
	first := d[0]
	if isUnifiedFirst(first) {
		off := 1
		if first&0x10 != 0 {
			off += vw.cidLen
		}
		if first&0x08 != 0 {
			off += 2
		} else {
			off++
		}
		if first&0x04 == 0 {
			return len(d)
		}
		if len(d) < off+2 {
			return 0
		}
		n := int(binary.BigEndian.Uint16(d[off:]))
		if len(d) < off+2+n {
			return 0
		}
		return off + 2 + n
	}
	hdr := 13
	if first == 25 {
		hdr += vw.cidLen
	}
	if len(d) < hdr {
		return 0
	}
	n := int(binary.BigEndian.Uint16(d[hdr-2:]))
	if len(d) < hdr+n {
		return 0
	}
	return hdr + n
}

func ctClass(b byte, is13 bool) string {
	switch {
	case b == 21 || b == 22:
		return "ct-plain"
	case b == 26 && is13:
		return "ct-plain"
	case b >= 20 && b <= 27:
		return "ct-other"
	}
	return "ct-unknown"
}

// u24 / put helpers shared by the grammar.
func put24(b []byte, v uint32) { b[0], b[1], b[2] = byte(v>>16), byte(v>>8), byte(v) }

func put48(b []byte, v uint64) {
	b[0], b[1], b[2], b[3], b[4], b[5] = byte(v>>40), byte(v>>32), byte(v>>24), byte(v>>16), byte(v>>8), byte(v)
}

// rec12 frames a legacy record with an explicit declared length.
func rec12(typ byte, ver [2]byte, epoch uint16, seq uint64, declared int, body []byte) []byte {
	out := make([]byte, 13, 13+len(body))
	out[0], out[1], out[2] = typ, ver[0], ver[1]
	binary.BigEndian.PutUint16(out[3:], epoch)
	put48(out[5:], seq)
	binary.BigEndian.PutUint16(out[11:], uint16(declared))
	return append(out, body...)
}

// plain12 frames a well-formed DTLS 1.2 plaintext record.
func plain12(typ byte, epoch uint16, seq uint64, body []byte) []byte {
	return rec12(typ, [2]byte{0xfe, 0xfd}, epoch, seq, len(body), body)
}

// hsHeader builds a 12-byte DTLS handshake header.
func hsHeader(typ byte, length uint32, mseq uint16, off, flen uint32) []byte {
	h := make([]byte, 12)
	h[0] = typ
	put24(h[1:], length)
	binary.BigEndian.PutUint16(h[4:], mseq)
	put24(h[6:], off)
	put24(h[9:], flen)
	return h
}

// hsMessage is a complete (unfragmented) handshake message.
func hsMessage(typ byte, mseq uint16, body []byte) []byte {
	return append(hsHeader(typ, uint32(len(body)), mseq, 0, uint32(len(body))), body...)
}
