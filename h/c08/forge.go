package c08

import (
	"errors"
	"fmt"
	"sync/atomic"

	dtls "github.com/pion/dtls/v3"
	dtlsstate "github.com/pion/dtls/v3/internal/state"
	"github.com/pion/dtls/v3/zzverif/refimpl"
	"github.com/pion/dtls/v3/zzverif/world"
)

// forger seals arbitrary plaintext with the genuine peer's keys (reference record layer, refimpl): it
// plays "an authenticated peer sending correctly protected but malformed content".
type forger struct {
	is13  bool
	suite *refimpl.Suite
	// DTLS 1.2: the peer's write keys; cid = the victim's connection ID (nil if none)
	k12 refimpl.Keys12
	cid []byte
	// DTLS 1.3: keys per epoch the victim can read
	k13    map[uint16]refimpl.Keys13
	epochs []uint16
	// next fresh sequence number per epoch
	next map[uint16]uint64
	// decrypted13: protected handshake messages of the genuine peer (DTLS 1.3), opened with the same keys
	decrypted13 []genuineMsg
}

func (f *forger) isCBC() bool { return f.suite != nil && f.suite.Kind == refimpl.KindCBC }

// forgeSpec describes one record to seal.
type forgeSpec struct {
	kind    string // "" normal, "zeros" (inner plaintext without content type), "cbcpad", "cbcmaxpad"
	typ     byte
	epoch   uint16
	payload []byte
	pad     int
}

// helloRandoms finds client and server random on the wire (first fragment of the last ClientHello /
// ServerHello; the random sits at body offset 2..34).
func helloRandoms(emitted []*world.Datagram) (cr, sr []byte) {
	for _, d := range emitted {
		recs, _ := world.ParseDatagram(d.Data, 0)
		for _, r := range recs {
			if r.Unified || r.Type != 22 || r.Epoch != 0 {
				continue
			}
			for _, f := range r.HS {
				if f.FragOff != 0 || len(f.Body) < 34 {
					continue
				}
				switch {
				case f.Type == 1 && d.Src == world.ClientAddr:
					cr = append([]byte(nil), f.Body[2:34]...)
				case f.Type == 2 && d.Src == world.ServerAddr:
					sr = append([]byte(nil), f.Body[2:34]...)
				}
			}
		}
	}
	return
}

// newForger derives the keys for records addressed to victim. It returns nil if the victim holds no
// record keys yet.
func newForger(cx *ctx) *forger {
	vs := cx.victim.Snapshot()
	ps := cx.peer.Snapshot()
	if !vs.HasSuite {
		return nil
	}
	suite, ok := refimpl.SuiteByID(vs.SuiteID)
	if !ok {
		return nil
	}
	f := &forger{suite: suite, next: map[uint16]uint64{}}
	peerNext := func(e uint16) uint64 {
		if int(e) < len(ps.LocalSeq) {
			return ps.LocalSeq[e]
		}
		return 0
	}
	if suite.TLS13 {
		f.is13 = true
		f.k13 = map[uint16]refimpl.Keys13{}
		dtls.VerifPeek(cx.victim.Conn, func(in dtls.VerifInternals) {
			st, ok := in.State.(*dtlsstate.State13)
			if !ok || st.TrafficKeys == nil {
				return
			}
			for e := uint16(1); e <= 6; e++ {
				if g, ok := st.TrafficKeys.Read(e); ok && g != nil && len(g.Secret) > 0 && g.Protection != nil {
					f.k13[e] = refimpl.TrafficKeys13(suite, g.Secret)
					f.epochs = append(f.epochs, e)
				}
			}
		})
		if len(f.epochs) == 0 {
			return nil
		}
		for _, e := range f.epochs {
			f.next[e] = peerNext(e) + 1
		}
		f.decrypt13(cx)
		return f
	}
	if len(vs.MasterSecret) == 0 {
		return nil
	}
	cr, sr := helloRandoms(cx.w.Emitted())
	if cr == nil || sr == nil {
		return nil
	}
	kb := refimpl.KeyBlockFor(suite, vs.MasterSecret, cr, sr)
	f.k12 = kb.Writer(!cx.victim.IsClient)
	f.cid = vs.LocalCID
	f.epochs = []uint16{1}
	f.next[1] = peerNext(1) + 1
	return f
}

// decrypt13 opens the genuine peer's protected handshake records (to harvest NewSessionTicket etc.).
func (f *forger) decrypt13(cx *ctx) {
	for _, d := range cx.w.Emitted() {
		if d.Src != cx.peer.Addr {
			continue
		}
		rest := d.Data
		for len(rest) > 0 && isUnifiedFirst(rest[0]) {
			var rec refimpl.Record13
			var err error
			opened := false
			var nrest []byte
			for _, e := range f.epochs {
				if byte(e&3) != rest[0]&3 {
					continue
				}
				for _, exp := range []uint64{0, 1, 2, 3, 4, 5, 6, 7, 8} {
					rec, nrest, err = refimpl.Open13(f.suite, f.k13[e], rest, 0, exp)
					if err == nil {
						opened = true
						break
					}
				}
				if opened {
					break
				}
			}
			if !opened {
				break
			}
			if rec.Type == 22 && len(rec.Payload) >= 12 {
				h, frag, _, perr := refimpl.ParseHandshake(rec.Payload)
				if perr == nil && h.FragOffset == 0 && h.Length == len(frag) {
					f.decrypted13 = append(f.decrypted13, genuineMsg{fromClient: cx.peer.IsClient, typ: h.Type, mseq: h.MessageSeq, body: append([]byte(nil), frag...)})
				}
			}
			rest = nrest
		}
	}
}

// seal produces the datagram for spec with a fresh sequence number.
func (f *forger) seal(fs *forgeSpec) ([]byte, error) {
	seq := f.next[fs.epoch]
	f.next[fs.epoch] = seq + 1
	if f.is13 {
		k, ok := f.k13[fs.epoch]
		if !ok {
			return nil, fmt.Errorf("no keys for epoch %d", fs.epoch)
		}
		if fs.kind == "zeros" {
			return seal13Raw(f.suite, k, fs.epoch, seq, fs.payload)
		}
		return refimpl.Seal13(f.suite, k, refimpl.Record13{Type: fs.typ, Epoch: fs.epoch, Seq: seq, Seq16: true, WithLength: true, Payload: fs.payload})
	}
	wrap := len(f.cid) > 0
	switch fs.kind {
	case "zeros":
		if !wrap {
			return nil, errors.New("inner plaintext needs a CID record")
		}
		// content || real_type || zeros with content empty, real_type 0: all zeros
		return refimpl.Seal12(f.suite, f.k12, refimpl.Record12{Type: 0, Epoch: fs.epoch, Seq: seq, WrapCID: true, CID: f.cid, Pad: len(fs.payload) - 1, Payload: nil})
	case "cbcpad":
		// IV || CBC(every byte = pad): three blocks whose padding check passes while the padding claims more
		// bytes than the record holds besides the MAC
		blocks := 3
		if fs.pad >= 48 {
			blocks = (fs.pad + 1 + 15) / 16
			if blocks > 16 {
				blocks = 16
			}
		}
		data := make([]byte, 16*blocks)
		for i := range data {
			data[i] = byte(fs.pad)
		}
		return f.cbcRaw(23, fs.epoch, seq, data)
	case "cbcmaxpad":
		outer, fragment := fs.typ, fs.payload
		var mac []byte
		ver := [2]byte{0xfe, 0xfd}
		if wrap {
			outer = refimpl.ContentTypeCID
			fragment = refimpl.InnerPlaintext12(fs.payload, fs.typ, 0)
			mac = refimpl.MAC12CID(f.suite.MAC, f.k12.MAC, ver, fs.epoch, seq, f.cid, fragment)
		} else {
			mac = refimpl.MAC12(f.suite.MAC, f.k12.MAC, outer, ver, fs.epoch, seq, fragment)
		}
		data := append(append([]byte(nil), fragment...), mac...)
		padLen := 15 - len(data)%16
		for padLen+16 <= 255 {
			padLen += 16
		}
		for i := 0; i <= padLen; i++ {
			data = append(data, byte(padLen))
		}
		return f.cbcRaw(outer, fs.epoch, seq, data)
	}
	return refimpl.Seal12(f.suite, f.k12, refimpl.Record12{Type: fs.typ, Epoch: fs.epoch, Seq: seq, WrapCID: wrap, CID: f.cid, Payload: fs.payload})
}

func (f *forger) cbcRaw(outer byte, epoch uint16, seq uint64, data []byte) ([]byte, error) {
	iv := filler(16)
	ct, err := refimpl.CBCEncryptRaw(f.k12.Key, iv, data)
	if err != nil {
		return nil, err
	}
	var cid []byte
	if len(f.cid) > 0 {
		outer, cid = refimpl.ContentTypeCID, f.cid
	}
	body := append(append([]byte(nil), iv...), ct...)
	return append(refimpl.Header12(outer, [2]byte{0xfe, 0xfd}, epoch, seq, cid, len(body)), body...), nil
}

// seal13Raw seals an arbitrary inner plaintext (refimpl.Seal13 refuses content type 0).
func seal13Raw(s *refimpl.Suite, k refimpl.Keys13, epoch uint16, seq uint64, inner []byte) ([]byte, error) {
	aead, err := refimpl.AEAD12(s, k.Key)
	if err != nil {
		return nil, err
	}
	h := refimpl.UnifiedHeader{SeqLow: uint16(seq), Seq16: true, WithLength: true, Length: uint16(len(inner) + s.TagLen), EpochLow: uint8(epoch & 3)}
	hdr := h.Marshal()
	ct := aead.Seal(nil, refimpl.Nonce13(k.IV, seq), inner, hdr)
	mask, err := refimpl.SNMask(s, k.SNKey, ct)
	if err != nil {
		return nil, err
	}
	hdr[1] ^= mask[0]
	hdr[2] ^= mask[1]
	return append(hdr, ct...), nil
}

// commitSequence makes the genuine peer continue after the forger's records: the forger IS the peer as
// far as the victim's replay window is concerned, so the peer's next record must carry a later number.
func (f *forger) commitSequence(peer *world.Endpoint) {
	dtls.VerifPoke(peer.Conn, func(in dtls.VerifInternals) {
		cs := dtlsstate.CommonState(in.State)
		for e, n := range f.next {
			for len(cs.LocalSequenceNumber) <= int(e) {
				cs.LocalSequenceNumber = append(cs.LocalSequenceNumber, 0)
			}
			if atomic.LoadUint64(&cs.LocalSequenceNumber[e]) < n {
				atomic.StoreUint64(&cs.LocalSequenceNumber[e], n)
			}
		}
	})
}
