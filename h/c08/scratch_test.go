package c08

import (
	"fmt"
	"os"
	"testing"
	"time"

	"github.com/pion/dtls/v3/zzverif/checks"
	"github.com/pion/dtls/v3/zzverif/world"
)

func TestScratchRuns(t *testing.T) {
	if os.Getenv("C08_SCRATCH") == "" {
		t.Skip()
	}
	p := world.GetPKI(t)
	for _, v := range checks.AllVariants() {
		world.Run(t, 1, func(w *world.World) {
			pr, err := v.Setup(w, p)
			if err != nil {
				t.Fatal(err)
			}
			n := world.NewNet(w, world.ClientAddr, nil)
			err = n.Pump(30*time.Second, pr.BothDone)
			steps := len(n.Events)
			n.Flush()
			fmt.Printf("== %s: err=%v c=%v s=%v steps=%d total=%d now=%v\n", v.Name, err, pr.C.HS, pr.S.HS, steps, len(n.Events), w.Now())
			for i, e := range n.Events {
				if len(e) > 150 {
					e = e[:150]
				}
				fmt.Printf("  %2d %s\n", i, e)
			}
			cs, ss := pr.C.Snapshot(), pr.S.Snapshot()
			fmt.Printf("  client cache=%d frag=%d/%d q=%d ; server cache=%d q=%d\n", cs.CacheLen, cs.FragSize, cs.FragCount, cs.Queued, ss.CacheLen, ss.Queued)
			pr.CloseAll()
		})
	}
}
