package c08

import (
	"errors"
	"fmt"
	"io"
	"os"
	"sort"
	"strings"
	"sync"
	"sync/atomic"
	"testing"
	"time"

	dtls "github.com/pion/dtls/v3"
	dtlsstate "github.com/pion/dtls/v3/internal/state"
	"github.com/pion/dtls/v3/zzverif/refimpl"
	"github.com/pion/dtls/v3/zzverif/run"
	"github.com/pion/dtls/v3/zzverif/world"
)

// Fixed limits of the library (conn.go maxAppDataPacketQueueSize; fragment_buffer.go fragmentBufferMaxSize /
// fragmentBufferMaxCount), restated here: the oracle must not read them from the code under test.
const (
	limitQueued    = 100
	limitFragBytes = 2000000
	limitFragCount = 1000
	cacheSlack     = 8 // handshake cache may exceed the default run's maximum by this much
)

var errInjectedSend = errors.New("injected transient send error")

// spec identifies one case.
type spec struct {
	v              variant
	victimIsClient bool
	k              int
	fam            string // family, or "probe" (all suspects of all families, each on its own connection)
	thorough       bool
	seed           uint64
	// wf: the victim's transport fails the next WriteTo once (a transient local send error such as ENOBUFS) at
	// the moment each hostile datagram arrives: whatever the datagram makes the endpoint send — a re-sent final
	// flight, an alert, a cookie request — does not leave. Established endpoints only: a transport error may end
	// a handshake in progress, it may not turn a hostile datagram into a wedge of an established association.
	wf bool
}

func (s spec) id() string {
	side := "server"
	if s.victimIsClient {
		side = "client"
	}
	id := fmt.Sprintf("%s/%s/%s/%s", s.v.Name, side, pointName(s.k), s.fam)
	if s.wf {
		id += "+sendfail"
	}
	return id
}

// finding is one violated clause with its cause key.
type finding struct {
	key  string
	text string
}

// result of running a list of inputs.
type result struct {
	skip       bool
	skipWhy    string
	catalogue  int
	injected   int
	segments   int
	survivedMS int // must-survive inputs after which the endpoint was alive
	survivedMA int // may-abort inputs after which the endpoint was alive
	legitAbort int // may-abort inputs that ended the association
	skippedCls int // must-survive inputs not injected because their class had already killed twice in this case
	readErrs   int // transient errors surfaced by Read on an established victim
	finalOK    int // chains that ended with handshake completion + one payload each way
	findings   []finding
	classes    map[string]int
	counters   map[string]int
	states     []uint64
	trans      []uint64
}

func (r *result) add(key, text string) {
	for _, f := range r.findings {
		if f.key == key {
			return
		}
	}
	r.findings = append(r.findings, finding{key, text})
}

func (r *result) count(k string, n int) {
	if r.counters == nil {
		r.counters = map[string]int{}
	}
	r.counters[k] += n
}

// progress: attribution of a worker death to one input. In a worker it is a small file rewritten before
// every injection; in a child it is a line on stdout.
type progressSink struct {
	mu    sync.Mutex
	f     *os.File
	child bool
	n     int
}

var progress progressSink

func (p *progressSink) note(caseID string, in *input, i, n int) {
	if p.child {
		return
	}
	if p.f == nil {
		return
	}
	if p.n++; p.n%500 == 0 {
		run.Heartbeat() // an injection completed: the chain is alive (a spinning library stops these)
	}
	line := fmt.Sprintf("case=%s input=%s (%d/%d) %s", caseID, in.id(), i, n, in.desc)
	if len(in.data) > 0 && len(in.data) <= 64 {
		line += fmt.Sprintf(" bytes=%x", in.data)
	}
	if len(line) > 500 {
		line = line[:500]
	}
	line += strings.Repeat(" ", 510-len(line)) + "\n"
	_, _ = p.f.WriteAt([]byte(line), 0)
}

// stormGuard bounds what ONE injected datagram may cause: more than stormLimit emissions at one fake
// instant is an emission storm (a library goroutine looping). The loop cannot be stopped from outside and
// the bubble would never settle again, so the process ends here: a child reports it on stdout and exits
// (the parent turns that into a violation under the check's own key); a worker panics with a fixed text
// (the driver reports the journalled case).
const stormLimit = 200

type stormGuard struct {
	mu     sync.Mutex
	armed  bool
	n      int
	caseID string
	in     *input
}

var storm stormGuard

func (s *stormGuard) arm(caseID string, in *input) {
	s.mu.Lock()
	s.armed, s.n, s.caseID, s.in = true, 0, caseID, in
	s.mu.Unlock()
}

func (s *stormGuard) disarm() {
	s.mu.Lock()
	s.armed = false
	s.mu.Unlock()
}

func (s *stormGuard) onEmit(d *world.Datagram) {
	s.mu.Lock()
	if !s.armed {
		s.mu.Unlock()
		return
	}
	s.n++
	over := s.n > stormLimit
	caseID, in := s.caseID, s.in
	s.mu.Unlock()
	if !over {
		return
	}
	if progress.child {
		fmt.Fprintf(os.Stdout, "\n%s STORM %d emissions after one injected datagram: %s\n", childTag, stormLimit, world.Describe(d.Data))
		os.Exit(3)
	}
	fmt.Fprintf(os.Stderr, "C08 emission-storm in case %s on input %s\n", caseID, descOf(in))
	panic(fmt.Sprintf("C08 emission-storm: one injected datagram caused more than %d emissions at one fake instant", stormLimit))
}

// peek is the cheap private-state read used after every injection (bounds and liveness).
type peekT struct {
	closed, est                        bool
	queued, fragSize, fragCount, cache int
	cur                                uint16 // next handshake message_seq the reassembly expects
	windows, remoteEpoch               int    // anti-replay windows allocated (one per epoch slot) / highest epoch readable
}

func lightPeek(e *world.Endpoint) peekT { return peekWith(e, true) }

// peekWith reads the cache length only on request (the accessor copies the cache).
func peekWith(e *world.Endpoint, cache bool) peekT {
	var p peekT
	dtls.VerifPeek(e.Conn, func(in dtls.VerifInternals) {
		p.closed, p.est, p.queued = in.Closed, in.Established, in.QueuedEncrypted
		p.fragSize, p.fragCount, _, p.cur = in.FragmentBuffer.VerifStats()
		// the reassembly cursor is synchronised lazily with the state machine's receive sequence
		if hs := dtlsstate.HandshakeRecvSequence(in.State); hs > int(p.cur) && hs <= 0xffff {
			p.cur = uint16(hs)
		}
		if cache {
			p.cache = len(in.HandshakeCache.VerifItems())
		}
		cs := dtlsstate.CommonState(in.State)
		p.windows, p.remoteEpoch = len(cs.ReplayDetector), int(cs.RemoteEpoch())
	})
	return p
}

// cacheMax is the largest handshake-cache length seen on the default run of a variant (either endpoint),
// measured once per process.
var (
	cacheMaxMu sync.Mutex
	cacheMaxOf = map[string]int{}
)

func cacheMax(t *testing.T, p *world.PKI, v variant, seed uint64) int {
	cacheMaxMu.Lock()
	defer cacheMaxMu.Unlock()
	if m, ok := cacheMaxOf[v.Name]; ok {
		return m
	}
	m := 0
	world.Run(t, seed, func(w *world.World) {
		pr, err := v.Setup(w, p)
		if err != nil {
			return
		}
		n := world.NewNet(w, world.ClientAddr, nil)
		for i := 0; i < 200; i++ {
			for _, e := range []*world.Endpoint{pr.C, pr.S} {
				if c := lightPeek(e).cache; c > m {
					m = c
				}
			}
			if !n.Step() {
				break
			}
		}
		pr.CloseAll()
	})
	cacheMaxOf[v.Name] = m
	return m
}

// readerLog collects what an established victim's application reads while it is under attack.
type readerLog struct {
	mu   sync.Mutex
	data [][]byte
	errs int
	last string
}

func (l *readerLog) has(p []byte) bool {
	l.mu.Lock()
	defer l.mu.Unlock()
	for _, d := range l.data {
		if string(d) == string(p) {
			return true
		}
	}
	return false
}

func closedErr(err error) bool {
	if errors.Is(err, io.EOF) || errors.Is(err, dtls.ErrConnClosed) {
		return true
	}
	s := err.Error()
	return strings.Contains(s, "closed") || strings.Contains(s, "EOF")
}

func startReader(w *world.World, e *world.Endpoint, l *readerLog) *world.Op {
	return w.Go(e.Name+".ReadLoop", func(*world.Op) error {
		buf := make([]byte, 16384)
		same := 0
		for {
			n, err := e.Conn.Read(buf)
			if err != nil {
				if closedErr(err) {
					return nil
				}
				l.mu.Lock()
				l.errs++
				if err.Error() == l.last {
					same++
				} else {
					same, l.last = 0, err.Error()
				}
				stop := l.errs > 500000
				l.mu.Unlock()
				if stop {
					return err
				}
				continue
			}
			l.mu.Lock()
			same = 0
			l.data = append(l.data, append([]byte(nil), buf[:n]...))
			l.mu.Unlock()
		}
	})
}

// runner executes one case.
type runner struct {
	t   *testing.T
	p   *world.PKI
	sp  spec
	res *result
	// killsByClass counts associations ended by must-survive inputs of a class (skipping rule).
	killsByClass map[string]int
	cacheLimit   int
	cacheFirst   string // first input after which the handshake cache exceeded its bound
	cacheMaxSeen int
	verbose      bool
	// child-mode hooks (isolated execution)
	onBegin func(i int, in *input)
	onEnd   func(i int, in *input, status string)
}

func errShort(err error) string {
	if err == nil {
		return "closed"
	}
	s := err.Error()
	s = strings.TrimPrefix(s, "handshake failed: ")
	if i := strings.Index(s, " 0x"); i > 0 {
		s = s[:i]
	}
	if len(s) > 70 {
		s = s[:70]
	}
	return strings.ReplaceAll(strings.ReplaceAll(s, " ", "-"), ":", "")
}

func (r *runner) vers() string {
	if r.sp.v.V13 {
		return "dtls1.3"
	}
	return "dtls1.2"
}

// where names the attacked role and phase (part of the cause key of memory findings).
func (r *runner) where() string {
	role, phase := "server", "handshake"
	if r.sp.victimIsClient {
		role = "client"
	}
	if r.sp.k == pointEst {
		phase = "established"
	}
	return role + ":" + phase
}

// prepare builds the context once and generates the catalogue.
func (r *runner) prepare() (list []*input, reachable bool, err error) {
	fams := []string{r.sp.fam}
	if r.sp.fam == "probe" {
		fams = []string{"hshdr", "msgtrunc", "corrupt", "auth"}
	}
	reachable = true
	world.Run(r.t, r.sp.seed, func(w *world.World) {
		cx, berr := build(w, r.p, r.sp.v, r.sp.victimIsClient, r.sp.k)
		if berr != nil {
			err = berr
			return
		}
		defer cx.pr.CloseAll()
		if !cx.reachable {
			reachable = false
			return
		}
		gi := r.genInfo(cx)
		for _, f := range fams {
			for _, in := range catalogue(f, gi) {
				if (r.sp.fam == "probe") == (in.suspect != "") {
					list = append(list, in)
				}
			}
		}
	})
	return
}

func (r *runner) genInfo(cx *ctx) *genInfo {
	vs := cx.victim.Snapshot()
	gi := &genInfo{thorough: r.sp.thorough, victimIsClient: cx.victim.IsClient, kx: cx.v.kx, emitted: cx.w.Emitted()}
	gi.vw = view{is13: cx.v.V13, cidLen: len(vs.LocalCID), est: established(cx.victim)}
	gi.cur = vs.FragCur
	if vs.HSRecv > 0 && vs.HSRecv <= 0xffff && uint16(vs.HSRecv) > gi.cur {
		gi.cur = uint16(vs.HSRecv)
	}
	gi.epochNow = vs.RemoteEpoch
	gi.victimEst = established(cx.victim)
	if su, ok := refimpl.SuiteByID(vs.SuiteID); ok && vs.HasSuite {
		gi.cbc = su.Kind == refimpl.KindCBC
	}
	victimAddr := cx.victim.Addr
	gi.toVictim = func(d *world.Datagram) bool { return d.Dst == victimAddr }
	gi.fg = newForger(cx)
	gi.nextType = 14
	if h := cx.w.Head(); h != nil && h.Dst == victimAddr {
		if recs, _ := world.ParseDatagram(h.Data, 0); len(recs) > 0 && len(recs[0].HS) > 0 {
			gi.nextType = recs[0].HS[0].Type
		}
	}
	return gi
}

// segment injects list[from:] one datagram at a time on ONE freshly built association until the list
// is exhausted or the association ends; it returns the index of the next input to inject.
// strictEnd says whether the chain must end with a working association (all inputs must-survive).
func (r *runner) segment(list []*input, from int, single bool) int {
	next := from
	caseID := r.sp.id()
	var injectedHere, wedged []*input
	var wedgeWhy, wedgeState string
	leak := world.RunLeak(r.t, r.sp.seed, func(w *world.World) {
		cx, err := build(w, r.p, r.sp.v, r.sp.victimIsClient, r.sp.k)
		if err != nil {
			r.res.add("harness:build-failed", err.Error())
			next = len(list)
			return
		}
		pr, victim, peer := cx.pr, cx.victim, cx.peer
		w.OnEmit = storm.onEmit
		var fg *forger
		baseID := w.EmittedCount()
		rl := &readerLog{}
		var reader *world.Op
		wasEst := established(victim)
		if wasEst {
			reader = startReader(w, victim, rl)
			w.Settle()
		}
		tr := &world.Tracer{}
		tr.Visit(pr.StateString(cx.n), "init")
		lastPeek := lightPeek(victim)
		startCur := lastPeek.cur
		isFlood := strings.HasPrefix(r.sp.fam, "flood-") // a flood is one sequence: it goes on whatever is accepted
		dead := false
		stalled := false
		sinceStart := 0
		visits := 0
		usedForger := false
		allMustSurvive := true
		var lastIn *input
		for next < len(list) && !dead {
			in := list[next]
			if in.verdict == mustSurvive && in.suspect == "" && r.killsByClass[in.class] >= 2 {
				r.res.skippedCls++
				next++
				continue
			}
			data := in.data
			if in.forge != nil {
				if fg == nil {
					fg = newForger(cx)
				}
				if fg == nil {
					next++
					continue
				}
				d, serr := fg.seal(in.forge)
				if serr != nil {
					r.res.count("forge_errors", 1)
					next++
					continue
				}
				data, usedForger = d, true
			}
			if r.onBegin != nil {
				r.onBegin(next, in)
			}
			progress.note(caseID, in, next, len(list))
			if r.verbose {
				w.Logf("INJECT %s [%s %s] %s %s", in.id(), in.class, in.verdict, in.desc, clipHex(data, 48))
			}
			storm.arm(caseID, in)
			if r.sp.wf {
				victim.PC.FailNextWrites(1, errInjectedSend)
			}
			w.Push(peer.Addr, victim.Addr, data)
			w.Settle()
			if r.sp.wf {
				victim.PC.FailNextWrites(0, nil) // an unused failure does not carry over to genuine traffic
			}
			storm.disarm()
			r.res.injected++
			r.res.classes[in.class]++
			lastIn = in
			injectedHere = append(injectedHere, in)
			if in.verdict != mustSurvive {
				allMustSurvive = false
			}
			// reactions of the victim to injected datagrams never reach the peer (the attacker is on-path for them)
			for _, d := range w.InFlight() {
				if d.ID >= baseID && d.Src == victim.Addr {
					w.Take(d)
					r.res.count("reactions_discarded", 1)
				}
			}
			// the cache length is read after each of the first 64 injections of an association, then every 16th
			sinceStart++
			withCache := sinceStart <= 64 || sinceStart%16 == 0
			pk := peekWith(victim, withCache)
			if !withCache {
				pk.cache = lastPeek.cache
			}
			r.bounds(pk, in)
			hsDone, hsErr := victim.HS.Result()
			dead = pk.closed || (hsDone && hsErr != nil)
			if pk != lastPeek {
				// state digests are for the evidence counts only: bounded per association (they cost a full snapshot)
				if visits < 24 || pk.closed != lastPeek.closed {
					tr.Visit(pr.StateString(cx.n), "inject:"+in.class)
					visits++
				}
				lastPeek = pk
			}
			status := "alive"
			if dead {
				status = r.killed(in, wasEst, hsErr)
			} else if in.verdict == mustSurvive {
				r.res.survivedMS++
			} else {
				r.res.survivedMA++
			}
			if r.onEnd != nil && !single {
				r.onEnd(next, in, status)
			}
			next++
			if single && (next >= len(list) || in.unit == 0 || list[next].unit != in.unit) {
				break
			}
			if !dead && victim.PC.Pending() > 0 {
				// the read loop no longer takes datagrams off the socket although the endpoint is neither closed nor
				// failed: stop here; the continuation decides whether valid traffic is still served
				r.res.count("read_loop_stopped_consuming", 1)
				stalled = true
				break
			}
			if !dead && pk.cur != startCur && !isFlood {
				// the input was accepted as the next handshake message: the rest of the catalogue was built for the
				// old message_seq. Let this association run on (delayed effects show in the continuation) and
				// go on with the next input on a fresh one.
				r.res.count("inputs_accepted_as_next_handshake_message", 1)
				break
			}
		}
		// continuation: the genuine handshake goes on and one payload flows each way
		if !dead {
			if usedForger && fg != nil {
				fg.commitSequence(peer)
			}
			if !allMustSurvive {
				// Accepted unprotected (epoch 0) injections have advanced the victim's epoch-0 replay window far
				// beyond the genuine peer's record numbers. That denial of service is inherent to unauthenticated
				// epoch 0 and is not what this chain is about: let the peer's NEXT records (retransmissions) carry
				// later numbers so that delayed effects of the accepted inputs (parsing at flight completion) are
				// reached. Never done after must-survive-only chains: there a poisoned window IS a finding.
				bumpEpoch0(peer, injectedSeqCeiling)
			}
			// A read loop that has stopped taking datagrams off the socket while the endpoint is neither closed nor
			// failed is a wedge whatever the class of the inputs: an input that may end the association ends it
			// (closed, calls return) — it does not leave it open and deaf.
			strict := allMustSurvive || stalled
			why := r.continuation(cx, reader, rl, strict)
			switch {
			case why == "":
				r.res.finalOK++
			case !strict:
				r.res.count("lenient_chain_did_not_recover", 1)
			case !allMustSurvive:
				r.res.count("established_chain_did_not_recover", 1)
				wedged = append([]*input(nil), injectedHere...)
				wedgeWhy = why
				wedgeState = fmt.Sprintf("client=%v server=%v fsm client=%q server=%q", pr.C.HS, pr.S.HS, pr.C.Log.LastFSM(), pr.S.Log.LastFSM())
			case allMustSurvive:
				wedged = append([]*input(nil), injectedHere...)
				wedgeWhy = why
				wedgeState = fmt.Sprintf("client=%v server=%v fsm client=%q server=%q", pr.C.HS, pr.S.HS, pr.C.Log.LastFSM(), pr.S.Log.LastFSM())
			default:
				r.res.count("lenient_chain_did_not_recover", 1)
			}
			// after the continuation only the fixed limits are checked (retransmissions legitimately add to the cache)
			pk := lightPeek(victim)
			pk.cache = 0
			r.bounds(pk, lastIn)
		}
		if single && r.onEnd != nil && lastIn != nil {
			st := "alive"
			if dead {
				st = "ended"
			}
			r.onEnd(next-1, lastIn, st)
		}
		tr.Visit(pr.StateString(cx.n), "end")
		r.res.states = append(r.res.states, tr.States...)
		r.res.trans = append(r.res.trans, tr.Trans...)
		// everything must unwind: close both, all application calls return
		pr.CloseAll()
		for _, op := range w.Ops() {
			if !op.Done() {
				r.res.add("application-call-did-not-return-after-close:"+opKind(op.Name),
					fmt.Sprintf("case %s: %s still pending after both connections were closed (last input %s)", caseID, op, descOf(lastIn)))
			}
		}
		rl.mu.Lock()
		r.res.readErrs += rl.errs
		rl.mu.Unlock()
		_ = reader
	})
	if wedged != nil {
		// find ONE input that alone stops valid traffic (the cause key names its class)
		min := r.minimize(wedged)
		cause, what := "chain-of-"+r.sp.fam+"(not-reproduced-on-a-fresh-association)", fmt.Sprintf("the chain of %d inputs", len(wedged))
		if len(min) > 0 {
			cls := map[string]int{}
			var descs []string
			for _, in := range min {
				cls[normClass(in.class)]++
				if len(descs) < 4 {
					descs = append(descs, descOf(in))
				}
			}
			var parts []string
			for _, c := range sortedKeys(cls) {
				parts = append(parts, fmt.Sprintf("%dx[%s]", cls[c], c))
			}
			cause = strings.Join(parts, ",")
			what = fmt.Sprintf("the minimal sequence of %d datagram(s) {%s}", len(min), strings.Join(descs, " ; "))
		}
		r.res.add(fmt.Sprintf("valid-traffic-not-served-after-datagram-that-must-be-dropped:%s:%s:%s", r.vers(), cause, wedgeWhy),
			fmt.Sprintf("case %s: after %s — input(s) that must be dropped or are valid traffic — the association stopped serving valid traffic: %s; %s", caseID, what, wedgeWhy, wedgeState))
	}
	if leak != "" {
		r.res.add("goroutine-leak-after:"+r.sp.fam, fmt.Sprintf("case %s: goroutines left blocked after closing both connections (inputs up to %d): %s", caseID, next, clip(leak, 300)))
	}
	r.res.segments++
	return next
}

// injectedSeqCeiling is above every record sequence number the grammar uses in unprotected records.
const injectedSeqCeiling = 0x700000

func bumpEpoch0(peer *world.Endpoint, to uint64) {
	dtls.VerifPoke(peer.Conn, func(in dtls.VerifInternals) {
		cs := dtlsstate.CommonState(in.State)
		if len(cs.LocalSequenceNumber) == 0 {
			cs.LocalSequenceNumber = append(cs.LocalSequenceNumber, 0)
		}
		if atomic.LoadUint64(&cs.LocalSequenceNumber[0]) < to {
			atomic.StoreUint64(&cs.LocalSequenceNumber[0], to)
		}
	})
}

func normClass(c string) string {
	for _, p := range []string{"genuine-corrupted/", "genuine-truncated/", "reflected-corrupted/", "reflected-truncated/"} {
		c = strings.TrimPrefix(c, p)
	}
	return c
}

// wedges injects sub on a fresh association and reports what the continuation lacks ("" = all served).
func (r *runner) wedges(sub []*input) string {
	why := ""
	_ = world.RunLeak(r.t, r.sp.seed, func(w *world.World) {
		cx, err := build(w, r.p, r.sp.v, r.sp.victimIsClient, r.sp.k)
		if err != nil {
			return
		}
		defer cx.pr.CloseAll()
		w.OnEmit = storm.onEmit
		baseID := w.EmittedCount()
		rl := &readerLog{}
		var reader *world.Op
		if established(cx.victim) {
			reader = startReader(w, cx.victim, rl)
			w.Settle()
		}
		var fg *forger
		for _, in := range sub {
			data := in.data
			if in.forge != nil {
				if fg == nil {
					fg = newForger(cx)
				}
				if fg == nil {
					continue
				}
				d, serr := fg.seal(in.forge)
				if serr != nil {
					continue
				}
				data = d
			}
			storm.arm(r.sp.id(), in)
			w.Push(cx.peer.Addr, cx.victim.Addr, data)
			w.Settle()
			storm.disarm()
			for _, d := range w.InFlight() {
				if d.ID >= baseID && d.Src == cx.victim.Addr {
					w.Take(d)
				}
			}
			if cx.victim.PC.Pending() > 0 {
				break
			}
		}
		if done, herr := cx.victim.HS.Result(); lightPeek(cx.victim).closed || (done && herr != nil) {
			return
		}
		if fg != nil {
			fg.commitSequence(cx.peer)
		}
		why = r.continuation(cx, reader, rl, true)
	})
	return why
}

// minimize is delta debugging (ddmin): a 1-minimal subsequence of sub that still stops valid traffic.
func (r *runner) minimize(sub []*input) []*input {
	if r.wedges(sub) == "" {
		return nil // not reproducible on a fresh association
	}
	n := 2
	for len(sub) >= 2 {
		chunk := (len(sub) + n - 1) / n
		reduced := false
		// try each chunk alone, then each complement
		for i := 0; i < len(sub) && !reduced; i += chunk {
			end := i + chunk
			if end > len(sub) {
				end = len(sub)
			}
			if part := sub[i:end]; len(part) < len(sub) && r.wedges(part) != "" {
				sub, n, reduced = append([]*input(nil), part...), 2, true
			}
		}
		for i := 0; i < len(sub) && !reduced && n > 2; i += chunk {
			end := i + chunk
			if end > len(sub) {
				end = len(sub)
			}
			comp := append(append([]*input(nil), sub[:i]...), sub[end:]...)
			if len(comp) > 0 && r.wedges(comp) != "" {
				sub, reduced = comp, true
				if n > 2 {
					n--
				}
			}
		}
		if !reduced {
			if n >= len(sub) {
				break
			}
			n *= 2
			if n > len(sub) {
				n = len(sub)
			}
		}
	}
	return sub
}

func opKind(name string) string {
	if i := strings.IndexByte(name, '.'); i >= 0 {
		name = name[i+1:]
	}
	if i := strings.IndexByte(name, '#'); i >= 0 {
		name = name[:i]
	}
	return name
}

func descOf(in *input) string {
	if in == nil {
		return "none"
	}
	s := in.id() + " " + in.desc
	if len(in.data) > 0 {
		s += " " + clipHex(in.data, 40)
	}
	return s
}

func clipHex(b []byte, n int) string {
	if len(b) > n {
		return fmt.Sprintf("%x…(%dB)", b[:n], len(b))
	}
	return fmt.Sprintf("%x", b)
}

func clip(s string, n int) string {
	if len(s) > n {
		return s[:n] + "…"
	}
	return s
}

// bounds checks the fixed buffering limits.
func (r *runner) bounds(pk peekT, in *input) {
	caseID := r.sp.id()
	if pk.queued > limitQueued {
		r.res.add("memory-bound-exceeded:queued-records", fmt.Sprintf("case %s: %d undecryptable records queued (limit %d) after %s", caseID, pk.queued, limitQueued, descOf(in)))
	}
	// one anti-replay window per epoch the endpoint can read, plus the queueable future epochs: an
	// unauthenticated record header must not make the endpoint allocate state for epochs nobody negotiated
	if lim := pk.remoteEpoch + 8; pk.windows > lim {
		r.res.add("memory-bound-exceeded:replay-windows", fmt.Sprintf("case %s: %d anti-replay windows allocated while the highest readable epoch is %d (bound used %d) after %s", caseID, pk.windows, pk.remoteEpoch, lim, descOf(in)))
	}
	if pk.fragSize > limitFragBytes || pk.fragCount > limitFragCount {
		r.res.add("memory-bound-exceeded:fragment-buffer", fmt.Sprintf("case %s: fragment buffer holds %d bytes / %d fragments (limits %d / %d) after %s", caseID, pk.fragSize, pk.fragCount, limitFragBytes, limitFragCount, descOf(in)))
	}
	if pk.cache > r.cacheLimit {
		if r.cacheFirst == "" {
			r.cacheFirst = descOf(in)
		}
		if pk.cache > r.cacheMaxSeen {
			r.cacheMaxSeen = pk.cache
		}
	}
}

// killed classifies the end of the association caused by input in.
func (r *runner) killed(in *input, wasEst bool, hsErr error) string {
	phase := "handshake"
	if wasEst {
		phase = "established-connection"
	}
	if in.verdict == mayAbort {
		r.res.legitAbort++
		r.res.count("legit_abort:"+in.class, 1)
		return "ended(may-abort)"
	}
	r.killsByClass[in.class]++
	// the cause key names the library's reaction (its error), not the input: many inputs share one cause
	key := fmt.Sprintf("%s-ended-by-datagram-that-must-be-dropped:%s:%s", phase, r.vers(), errShort(hsErr))
	if wasEst {
		key = fmt.Sprintf("%s-ended-by-datagram-that-must-be-dropped:%s:%s", phase, r.vers(), normClass(in.class))
	}
	r.res.add(key, fmt.Sprintf("case %s: %s ended by a datagram that must be dropped (%s, class %s): %s; victim handshake result: %v",
		r.sp.id(), phase, in.verdict, in.class, descOf(in), hsErr))
	return "ended(VIOLATION " + key + ")"
}

// continuation lets the genuine handshake finish (withheld datagrams FIFO, generous fake-time horizon)
// and moves one payload each way. It returns "" on success, else what failed.
func (r *runner) continuation(cx *ctx, reader *world.Op, rl *readerLog, strict bool) string {
	pr, n, w := cx.pr, cx.n, cx.w
	horizon := 180 * time.Second
	if !strict {
		horizon = 40 * time.Second
	}
	if !pr.BothDone() {
		_ = n.Pump(horizon, pr.BothDone)
	}
	if !pr.BothOK() {
		return "handshake-incomplete"
	}
	n.Flush()
	victim, peer := cx.victim, cx.peer
	if reader == nil {
		reader = startReader(w, victim, rl)
		w.Settle()
	}
	// peer -> victim
	pl := []byte("c08 payload to the victim")
	wr := w.Go(peer.Name+".Write", func(*world.Op) error { _, err := peer.Conn.Write(pl); return err })
	_ = n.Pump(30*time.Second, func() bool { return wr.Done() && rl.has(pl) })
	if !rl.has(pl) {
		return "payload-to-victim-not-delivered"
	}
	// victim -> peer
	pl2 := []byte("c08 payload from the victim")
	got, rerr, werr := pr.Transfer(n, victim, peer, pl2, 30*time.Second)
	if rerr != nil || werr != nil || string(got) != string(pl2) {
		return "payload-from-victim-not-delivered"
	}
	return ""
}

// finish turns deferred observations into findings.
func (r *runner) finish() {
	if r.cacheFirst != "" {
		r.res.add("memory-bound-exceeded:handshake-cache:"+r.vers()+":"+r.where()+":"+r.sp.fam, fmt.Sprintf("case %s: the handshake cache grows with every injected datagram, without bound: it reached %d entries while the endpoint stayed alive (the default run never holds more than %d; bound used %d); first exceeded after %s",
			r.sp.id(), r.cacheMaxSeen, r.cacheLimit-cacheSlack, r.cacheLimit, r.cacheFirst))
	}
}

// run executes the case: catalogue, then chains.
func (r *runner) run() {
	defer r.finish()
	r.res = &result{classes: map[string]int{}}
	r.killsByClass = map[string]int{}
	list, reachable, err := r.prepare()
	if err != nil {
		r.res.add("harness:prepare-failed", err.Error())
		return
	}
	if !reachable {
		r.res.skip, r.res.skipWhy = true, "point beyond the end of the default run"
		return
	}
	if len(list) == 0 {
		r.res.skip, r.res.skipWhy = true, "empty catalogue in this context"
		return
	}
	if pick := os.Getenv("C08_PICK"); pick != "" { // debugging aid: "lo-hi[,lo-hi...]" keeps inputs with lo <= idx <= hi
		var f []*input
		for _, in := range list {
			for _, part := range strings.Split(pick, ",") {
				var lo, hi int
				if _, err := fmt.Sscanf(part, "%d-%d", &lo, &hi); err == nil && in.idx >= lo && in.idx <= hi {
					f = append(f, in)
					break
				}
			}
		}
		list = f
	}
	r.res.catalogue = len(list)
	r.cacheLimit = cacheMax(r.t, r.p, r.sp.v, r.sp.seed) + cacheSlack
	if r.sp.fam == "probe" {
		for i := 0; i < len(list); {
			i = r.segment(list, i, true)
		}
		return
	}
	// two chains: inputs that must be dropped (the chain must end with a working association), then inputs
	// that may legitimately abort (only crash / deadlock / leak / memory are asserted)
	var ms, ma []*input
	for _, in := range list {
		if in.verdict == mustSurvive {
			ms = append(ms, in)
		} else {
			ma = append(ma, in)
		}
	}
	if strings.HasPrefix(r.sp.fam, "flood-") {
		// a flood is ONE sequence: it is not split, and it stops when the association ends
		next := r.segment(list, 0, false)
		r.res.count("flood_injected_before_end", next)
		return
	}
	for _, sub := range [][]*input{ms, ma} {
		for i := 0; i < len(sub); {
			i = r.segment(sub, i, false)
		}
	}
}

// outcomeText renders the findings deterministically.
func (res *result) keyAndText() (string, string) {
	if len(res.findings) == 0 {
		return "", ""
	}
	fs := append([]finding(nil), res.findings...)
	sort.Slice(fs, func(i, j int) bool { return fs[i].key < fs[j].key })
	var keys, texts []string
	for _, f := range fs {
		keys = append(keys, f.key)
		texts = append(texts, "["+f.key+"] "+f.text)
	}
	return strings.Join(keys, "+"), strings.Join(texts, " || ")
}
