package refimpl

import (
	"crypto/hmac"
	"errors"
)

// LabelPrefix13 is the HkdfLabel prefix of DTLS 1.3 (RFC 9147 §5.9); TLS 1.3 uses "tls13 " (RFC 8446 §7.1).
const LabelPrefix13 = "dtls13"

// HKDFExtract is RFC 5869 §2.2: PRK = HMAC-Hash(salt, IKM); an absent salt is HashLen zero octets.
func HKDFExtract(h HashID, salt, ikm []byte) []byte {
	if len(salt) == 0 {
		salt = make([]byte, h.Size())
	}
	m := hmac.New(h.New(), salt)
	m.Write(ikm)

	return m.Sum(nil)
}

// HKDFExpand is RFC 5869 §2.3: T(i) = HMAC-Hash(PRK, T(i-1) | info | i), OKM = first n octets of T(1) | T(2) | ...
func HKDFExpand(h HashID, prk, info []byte, n int) ([]byte, error) {
	if n > 255*h.Size() {
		return nil, errors.New("refimpl: HKDF-Expand length too large")
	}
	var out, t []byte
	for i := byte(1); len(out) < n; i++ {
		m := hmac.New(h.New(), prk)
		m.Write(t)
		m.Write(info)
		m.Write([]byte{i})
		t = m.Sum(nil)
		out = append(out, t...)
	}

	return out[:n], nil
}

// HkdfLabel is the structure of RFC 8446 §7.1:
// uint16 length; opaque label<7..255> = prefix + Label; opaque context<0..255>.
func HkdfLabel(prefix, label string, context []byte, length int) ([]byte, error) {
	full := prefix + label
	if len(full) > 255 || len(context) > 255 || length > 0xffff {
		return nil, errors.New("refimpl: HkdfLabel field too long")
	}

	return cat(u16(length), []byte{byte(len(full))}, []byte(full), []byte{byte(len(context))}, context), nil
}

// ExpandLabelPrefix is HKDF-Expand-Label with a caller-chosen label prefix.
func ExpandLabelPrefix(h HashID, prefix string, secret []byte, label string, context []byte, length int) ([]byte, error) {
	info, err := HkdfLabel(prefix, label, context, length)
	if err != nil {
		return nil, err
	}

	return HKDFExpand(h, secret, info, length)
}

// ExpandLabel is HKDF-Expand-Label of RFC 8446 §7.1 with the DTLS 1.3 prefix "dtls13" (RFC 9147 §5.9).
func ExpandLabel(h HashID, secret []byte, label string, context []byte, length int) []byte {
	out, err := ExpandLabelPrefix(h, LabelPrefix13, secret, label, context, length)
	if err != nil {
		panic(err)
	}

	return out
}

// HashOf is Hash(data).
func HashOf(h HashID, data []byte) []byte {
	d := h.New()()
	d.Write(data)

	return d.Sum(nil)
}

// DeriveSecret is RFC 8446 §7.1:
// Derive-Secret(Secret, Label, Messages) = HKDF-Expand-Label(Secret, Label, Transcript-Hash(Messages), Hash.length).
// messages is the concatenation of the handshake messages in TLS 1.3 form (see Canonical13).
func DeriveSecret(h HashID, secret []byte, label string, messages []byte) []byte {
	return ExpandLabel(h, secret, label, HashOf(h, messages), h.Size())
}

// DeriveSecretHash is DeriveSecret given Transcript-Hash(Messages).
func DeriveSecretHash(h HashID, secret []byte, label string, transcriptHash []byte) []byte {
	return ExpandLabel(h, secret, label, transcriptHash, h.Size())
}

// Schedule13 is the key schedule of RFC 8446 §7.1 for a handshake without early data.
type Schedule13 struct {
	Hash HashID

	EarlySecret     []byte // HKDF-Extract(0, PSK or 0)
	HandshakeSecret []byte // HKDF-Extract(Derive-Secret(Early, "derived", ""), (EC)DHE)
	MasterSecret    []byte // HKDF-Extract(Derive-Secret(Handshake, "derived", ""), 0)

	ClientHandshakeTraffic []byte // Derive-Secret(Handshake, "c hs traffic", ClientHello...ServerHello)
	ServerHandshakeTraffic []byte // Derive-Secret(Handshake, "s hs traffic", ClientHello...ServerHello)
	ClientAppTraffic0      []byte // Derive-Secret(Master, "c ap traffic", ClientHello...server Finished)
	ServerAppTraffic0      []byte // Derive-Secret(Master, "s ap traffic", ClientHello...server Finished)
	ExporterMaster         []byte // Derive-Secret(Master, "exp master", ClientHello...server Finished)
	ResumptionMaster       []byte // Derive-Secret(Master, "res master", ClientHello...client Finished)
}

// NewSchedule13 computes the secrets that depend only on the PSK (nil = none) and the (EC)DHE secret.
func NewSchedule13(h HashID, psk, ecdhe []byte) *Schedule13 {
	zero := make([]byte, h.Size())
	if psk == nil {
		psk = zero
	}
	if ecdhe == nil {
		ecdhe = zero
	}
	s := &Schedule13{Hash: h}
	s.EarlySecret = HKDFExtract(h, nil, psk)
	s.HandshakeSecret = HKDFExtract(h, DeriveSecret(h, s.EarlySecret, "derived", nil), ecdhe)
	s.MasterSecret = HKDFExtract(h, DeriveSecret(h, s.HandshakeSecret, "derived", nil), zero)

	return s
}

// SetHelloHash fills the handshake traffic secrets from Transcript-Hash(ClientHello...ServerHello).
func (s *Schedule13) SetHelloHash(th []byte) {
	s.ClientHandshakeTraffic = DeriveSecretHash(s.Hash, s.HandshakeSecret, "c hs traffic", th)
	s.ServerHandshakeTraffic = DeriveSecretHash(s.Hash, s.HandshakeSecret, "s hs traffic", th)
}

// SetServerFinishedHash fills the secrets bound to Transcript-Hash(ClientHello...server Finished).
func (s *Schedule13) SetServerFinishedHash(th []byte) {
	s.ClientAppTraffic0 = DeriveSecretHash(s.Hash, s.MasterSecret, "c ap traffic", th)
	s.ServerAppTraffic0 = DeriveSecretHash(s.Hash, s.MasterSecret, "s ap traffic", th)
	s.ExporterMaster = DeriveSecretHash(s.Hash, s.MasterSecret, "exp master", th)
}

// SetClientFinishedHash fills the resumption master secret from Transcript-Hash(ClientHello...client Finished).
func (s *Schedule13) SetClientFinishedHash(th []byte) {
	s.ResumptionMaster = DeriveSecretHash(s.Hash, s.MasterSecret, "res master", th)
}

// NextTrafficSecret is RFC 8446 §7.2:
// application_traffic_secret_N+1 = HKDF-Expand-Label(application_traffic_secret_N, "traffic upd", "", Hash.length).
func NextTrafficSecret(h HashID, secret []byte) []byte {
	return ExpandLabel(h, secret, "traffic upd", nil, h.Size())
}

// FinishedKey is RFC 8446 §4.4.4: HKDF-Expand-Label(BaseKey, "finished", "", Hash.length).
func FinishedKey(h HashID, baseKey []byte) []byte {
	return ExpandLabel(h, baseKey, "finished", nil, h.Size())
}

// FinishedVerifyData13 is RFC 8446 §4.4.4: HMAC(finished_key, Transcript-Hash(Handshake Context, Certificate*, CertificateVerify*)).
func FinishedVerifyData13(h HashID, baseKey, transcriptHash []byte) []byte {
	m := hmac.New(h.New(), FinishedKey(h, baseKey))
	m.Write(transcriptHash)

	return m.Sum(nil)
}

// Exporter13 is RFC 8446 §7.5:
// HKDF-Expand-Label(Derive-Secret(exporter_master_secret, label, ""), "exporter", Hash(context_value), key_length).
func Exporter13(h HashID, exporterMaster []byte, label string, context []byte, length int) []byte {
	return ExpandLabel(h, DeriveSecret(h, exporterMaster, label, nil), "exporter", HashOf(h, context), length)
}

// CertificateVerifyInput is the signed content of RFC 8446 §4.4.3: 64 octets 0x20, the context string
// ("TLS 1.3, server CertificateVerify" or "TLS 1.3, client CertificateVerify"), one 0 octet, Transcript-Hash.
func CertificateVerifyInput(client bool, transcriptHash []byte) []byte {
	ctx := "TLS 1.3, server CertificateVerify"
	if client {
		ctx = "TLS 1.3, client CertificateVerify"
	}
	pad := make([]byte, 64)
	for i := range pad {
		pad[i] = 0x20
	}

	return cat(pad, []byte(ctx), []byte{0}, transcriptHash)
}

// Keys13 is the record-protection state of one traffic secret (RFC 8446 §7.3, RFC 9147 §4.2.3).
type Keys13 struct {
	Key   []byte // HKDF-Expand-Label(Secret, "key", "", key_length)
	IV    []byte // HKDF-Expand-Label(Secret, "iv", "", 12)
	SNKey []byte // HKDF-Expand-Label(Secret, "sn", "", key_length)
}

// TrafficKeys13 derives key, iv and sn_key from a traffic secret.
func TrafficKeys13(s *Suite, secret []byte) Keys13 {
	return Keys13{
		Key:   ExpandLabel(s.Hash, secret, "key", nil, s.KeyLen),
		IV:    ExpandLabel(s.Hash, secret, "iv", nil, 12),
		SNKey: ExpandLabel(s.Hash, secret, "sn", nil, s.KeyLen),
	}
}

// MessageHash13 is the synthetic message that replaces ClientHello1 in the transcript after a
// HelloRetryRequest (RFC 8446 §4.4.1): message_hash(254) || 00 00 Hash.length || Hash(ClientHello1).
func MessageHash13(h HashID, clientHello1 []byte) []byte {
	d := HashOf(h, clientHello1)

	return cat([]byte{254, 0, 0, byte(len(d))}, d)
}
