package refimpl

import (
	"crypto/hmac"
	"encoding/binary"
	"errors"
)

// PHash is P_hash of RFC 5246 §5:
//
//	P_hash(secret, seed) = HMAC(secret, A(1) + seed) + HMAC(secret, A(2) + seed) + ...
//	A(0) = seed, A(i) = HMAC(secret, A(i-1))
//
// truncated to n bytes.
func PHash(h HashID, secret, seed []byte, n int) []byte {
	mac := func(parts ...[]byte) []byte {
		m := hmac.New(h.New(), secret)
		for _, p := range parts {
			m.Write(p)
		}

		return m.Sum(nil)
	}
	out := make([]byte, 0, n+64)
	a := mac(seed) // A(1)
	for len(out) < n {
		out = append(out, mac(a, seed)...)
		a = mac(a)
	}

	return out[:n]
}

// PRF is PRF(secret, label, seed) = P_hash(secret, label + seed) of RFC 5246 §5.
func PRF(h HashID, secret []byte, label string, seed []byte, n int) []byte {
	return PHash(h, secret, cat([]byte(label), seed), n)
}

// MasterSecret is RFC 5246 §8.1:
// PRF(pre_master_secret, "master secret", ClientHello.random + ServerHello.random)[0..47].
func MasterSecret(h HashID, preMaster, clientRandom, serverRandom []byte) []byte {
	return PRF(h, preMaster, "master secret", cat(clientRandom, serverRandom), 48)
}

// ExtendedMasterSecret is RFC 7627 §4:
// PRF(pre_master_secret, "extended master secret", session_hash)[0..47].
func ExtendedMasterSecret(h HashID, preMaster, sessionHash []byte) []byte {
	return PRF(h, preMaster, "extended master secret", sessionHash, 48)
}

// KeyBlock is the partitioned key_block of RFC 5246 §6.3.
type KeyBlock struct {
	ClientMAC, ServerMAC []byte
	ClientKey, ServerKey []byte
	ClientIV, ServerIV   []byte
}

// Keys12 is the write state of one direction.
type Keys12 struct {
	MAC, Key, IV []byte
}

// Client returns the client-write keys, Server the server-write keys.
func (kb KeyBlock) Client() Keys12 {
	return Keys12{MAC: kb.ClientMAC, Key: kb.ClientKey, IV: kb.ClientIV}
}

// Server returns the server-write keys.
func (kb KeyBlock) Server() Keys12 {
	return Keys12{MAC: kb.ServerMAC, Key: kb.ServerKey, IV: kb.ServerIV}
}

// Writer returns the write keys of the given side.
func (kb KeyBlock) Writer(client bool) Keys12 {
	if client {
		return kb.Client()
	}

	return kb.Server()
}

// KeyBlockRaw is key_block = PRF(master_secret, "key expansion", server_random + client_random)
// partitioned with explicit lengths (RFC 5246 §6.3).
func KeyBlockRaw(h HashID, master, clientRandom, serverRandom []byte, macLen, keyLen, ivLen int) KeyBlock {
	kb := PRF(h, master, "key expansion", cat(serverRandom, clientRandom), 2*macLen+2*keyLen+2*ivLen)
	take := func(n int) []byte {
		p := kb[:n:n]
		kb = kb[n:]

		return p
	}

	return KeyBlock{
		ClientMAC: take(macLen), ServerMAC: take(macLen),
		ClientKey: take(keyLen), ServerKey: take(keyLen),
		ClientIV: take(ivLen), ServerIV: take(ivLen),
	}
}

// KeyBlockFor partitions the key block for a TLS 1.2 suite of the table.
func KeyBlockFor(s *Suite, master, clientRandom, serverRandom []byte) KeyBlock {
	return KeyBlockRaw(s.Hash, master, clientRandom, serverRandom, s.MACLen, s.KeyLen, s.FixedIVLen)
}

// VerifyData is RFC 5246 §7.4.9: PRF(master_secret, finished_label, Hash(handshake_messages))[0..11]
// with finished_label "client finished" / "server finished". handshakeMessages is the concatenation of
// the handshake messages (for DTLS: each with its 12-byte header as if sent unfragmented, RFC 6347 §4.2.6).
func VerifyData(h HashID, master, handshakeMessages []byte, client bool) []byte {
	d := h.New()()
	d.Write(handshakeMessages)

	return VerifyDataFromHash(h, master, d.Sum(nil), client)
}

// VerifyDataFromHash is VerifyData given Hash(handshake_messages).
func VerifyDataFromHash(h HashID, master, transcriptHash []byte, client bool) []byte {
	label := "server finished"
	if client {
		label = "client finished"
	}

	return PRF(h, master, label, transcriptHash, 12)
}

// Exporter12 is the RFC 5705 §4 exporter:
//
//	PRF(master_secret, label, client_random + server_random [+ uint16(len(context)) + context])[length]
//
// The context part is present iff hasContext (an empty context differs from no context).
func Exporter12(h HashID, master, clientRandom, serverRandom []byte, label string, context []byte, hasContext bool, length int) []byte {
	seed := cat(clientRandom, serverRandom)
	if hasContext {
		var l [2]byte
		binary.BigEndian.PutUint16(l[:], uint16(len(context)))
		seed = cat(seed, l[:], context)
	}

	return PRF(h, master, label, seed, length)
}

// PSKPremaster is RFC 4279 §2: uint16 N, N zero octets, uint16 N, the PSK (N = len(psk)).
func PSKPremaster(psk []byte) []byte {
	return cat(u16(len(psk)), make([]byte, len(psk)), u16(len(psk)), psk)
}

// ECDHEPSKPremaster is RFC 5489 §2: uint16 len(Z), Z, uint16 len(psk), psk, with Z the ECDH shared secret.
func ECDHEPSKPremaster(z, psk []byte) []byte {
	return cat(u16(len(z)), z, u16(len(psk)), psk)
}

// SignedECDHParams is the octet string signed in an ECDHE ServerKeyExchange (RFC 8422 §5.4):
// client_random + server_random + ServerECDHParams, with
// ServerECDHParams = curve_type(3 = named_curve) + NamedCurve(uint16) + opaque point<1..2^8-1>.
func SignedECDHParams(clientRandom, serverRandom []byte, namedCurve uint16, publicKey []byte) ([]byte, error) {
	if len(publicKey) == 0 || len(publicKey) > 255 {
		return nil, errors.New("refimpl: ECPoint length out of range")
	}

	return cat(clientRandom, serverRandom, []byte{3}, u16(int(namedCurve)), []byte{byte(len(publicKey))}, publicKey), nil
}

func u16(v int) []byte { return []byte{byte(v >> 8), byte(v)} }

func cat(parts ...[]byte) []byte {
	n := 0
	for _, p := range parts {
		n += len(p)
	}
	out := make([]byte, 0, n)
	for _, p := range parts {
		out = append(out, p...)
	}

	return out
}
