package refimpl

import (
	"bytes"
	"crypto/aes"
	"encoding/hex"
	"strings"
	"testing"

	"golang.org/x/crypto/chacha20"
)

func unhex(t *testing.T, s string) []byte {
	t.Helper()
	b, err := hex.DecodeString(strings.Join(strings.Fields(s), ""))
	if err != nil {
		t.Fatal(err)
	}

	return b
}

func eq(t *testing.T, what string, got, want []byte) {
	t.Helper()
	if !bytes.Equal(got, want) {
		t.Fatalf("%s:\n got  %x\n want %x", what, got, want)
	}
}

// RFC 5869 Appendix A.1 (SHA-256).
func TestHKDFRFC5869(t *testing.T) {
	ikm := bytes.Repeat([]byte{0x0b}, 22)
	salt := unhex(t, "000102030405060708090a0b0c")
	info := unhex(t, "f0f1f2f3f4f5f6f7f8f9")
	prk := HKDFExtract(SHA256, salt, ikm)
	eq(t, "PRK", prk, unhex(t, "077709362c2e32df0ddc3f0dc47bba6390b6c73bb50f9c3122ec844ad7c2b3e5"))
	okm, err := HKDFExpand(SHA256, prk, info, 42)
	if err != nil {
		t.Fatal(err)
	}
	eq(t, "OKM", okm, unhex(t, "3cb25f25faacd57a90434f64d0362f2a2d2d0a90cf1a5a4c5db02d56ecc4c5bf34007208d5b887185865"))
}

// The TLS 1.2 PRF (SHA-256) known-answer vector circulated on the IETF TLS list and used by most stacks.
func TestPRFSHA256Vector(t *testing.T) {
	secret := unhex(t, "9bbe436ba940f017b17652849a71db35")
	seed := unhex(t, "a0ba9f936cda311827a6f796ffd5198c")
	want := unhex(t, `e3f229ba727be17b8d122620557cd453c2aab21d07c3d495329b52d4e61edb5a
		6b301791e90d35c9c9a46b4e14baf9af0fa022f7077def17abfd3797c0564bab
		4fbc91666e9def9b97fce34f796789baa48082d122ee42c5a72e5a5110fff701
		87347b66`)
	eq(t, "PRF", PRF(SHA256, secret, "test label", seed, 100), want)
}

// RFC 3610 §8 packet vector #1 (L = 2, M = 8).
func TestCCMRFC3610Vector1(t *testing.T) {
	key := unhex(t, "c0c1c2c3c4c5c6c7c8c9cacbcccdcecf")
	nonce := unhex(t, "00000003020100a0a1a2a3a4a5")
	aad := unhex(t, "0001020304050607")
	pt := unhex(t, "08090a0b0c0d0e0f101112131415161718191a1b1c1d1e")
	want := unhex(t, "588c979a61c663d2f066d0c2c0f989806d5f6b61dac38417e8d12cfdf926e0")
	b, _ := aes.NewCipher(key)
	c, err := NewCCM(b, 8, 13)
	if err != nil {
		t.Fatal(err)
	}
	ct := c.Seal(nil, nonce, pt, aad)
	eq(t, "CCM seal", ct, want)
	back, err := c.Open(nil, nonce, ct, aad)
	if err != nil {
		t.Fatal(err)
	}
	eq(t, "CCM open", back, pt)
	ct[3] ^= 1
	if _, err := c.Open(nil, nonce, ct, aad); err == nil {
		t.Fatal("CCM accepted a modified ciphertext")
	}
}

// RFC 8448 §3 (simple 1-RTT handshake): the parts of the schedule that do not depend on the
// transcript, computed with the TLS 1.3 label prefix.
func TestScheduleRFC8448(t *testing.T) {
	zero := make([]byte, 32)
	early := HKDFExtract(SHA256, nil, zero)
	eq(t, "early", early, unhex(t, "33ad0a1c607ec03b09e6cd9893680ce210adf300aa1f2660e1b22e10f170f92a"))
	derived, err := ExpandLabelPrefix(SHA256, "tls13 ", early, "derived", HashOf(SHA256, nil), 32)
	if err != nil {
		t.Fatal(err)
	}
	eq(t, "derived", derived, unhex(t, "6f2615a108c702c5678f54fc9dbab69716c076189c48250cebeac3576c3611ba"))
	ecdhe := unhex(t, "8bd4054fb55b9d63fdfbacf9f04b9f0d35e6d63f537563efd46272900f89492d")
	hs := HKDFExtract(SHA256, derived, ecdhe)
	eq(t, "handshake", hs, unhex(t, "1dc826e93606aa6fdc0aadc12f741b01046aa6b99f691ed221a9f0ca043fbeac"))
	derived2, _ := ExpandLabelPrefix(SHA256, "tls13 ", hs, "derived", HashOf(SHA256, nil), 32)
	eq(t, "derived2", derived2, unhex(t, "43de77e0c77713859a944db9db2590b53190a65b3ee2e4f12dd7a0bb7ce254b4"))
	master := HKDFExtract(SHA256, derived2, zero)
	eq(t, "master", master, unhex(t, "18df06843d13a08bf2a449844c5f8a478001bc4d4c627984d5a41da8d0402919"))
}

// The DTLS schedule is the same computation with the "dtls13" prefix; NewSchedule13 must agree with the
// step-by-step formulas.
func TestScheduleSelfConsistent(t *testing.T) {
	for _, h := range []HashID{SHA256, SHA384} {
		ecdhe := bytes.Repeat([]byte{7}, 32)
		s := NewSchedule13(h, nil, ecdhe)
		zero := make([]byte, h.Size())
		early := HKDFExtract(h, zero, zero)
		eq(t, "early", s.EarlySecret, early)
		d1, _ := ExpandLabelPrefix(h, "dtls13", early, "derived", HashOf(h, nil), h.Size())
		hs := HKDFExtract(h, d1, ecdhe)
		eq(t, "hs", s.HandshakeSecret, hs)
		info := cat([]byte{0, byte(h.Size()), 18}, []byte("dtls13c hs traffic"), []byte{byte(h.Size())}, HashOf(h, []byte("x")))
		want, _ := HKDFExpand(h, hs, info, h.Size())
		s.SetHelloHash(HashOf(h, []byte("x")))
		eq(t, "c hs traffic", s.ClientHandshakeTraffic, want)
	}
}

// RFC 8439 §2.3.2 block function vector, and agreement with x/crypto for the sequence-number mask.
func TestChaCha20Block(t *testing.T) {
	key := unhex(t, "000102030405060708090a0b0c0d0e0f101112131415161718191a1b1c1d1e1f")
	nonce := unhex(t, "000000090000004a00000000")
	blk := chacha20Block(key, 1, nonce)
	eq(t, "block", blk[:16], unhex(t, "10f1e7e4d13b5915500fdd1fa32071c4"))
	eq(t, "block tail", blk[48:], unhex(t, "b5129cd1de164eb9cbd083e8a2503c4e"))
	c, err := chacha20.NewUnauthenticatedCipher(key, nonce)
	if err != nil {
		t.Fatal(err)
	}
	c.SetCounter(1)
	ks := make([]byte, 64)
	c.XORKeyStream(ks, ks)
	eq(t, "x/crypto", blk[:], ks)
}

func TestRoundTrip12(t *testing.T) {
	ms := bytes.Repeat([]byte{1}, 48)
	cr, sr := bytes.Repeat([]byte{2}, 32), bytes.Repeat([]byte{3}, 32)
	for _, s := range Suites12() {
		kb := KeyBlockFor(s, ms, cr, sr)
		for _, wrap := range []bool{false, true} {
			for _, n := range []int{0, 1, 15, 16, 17, 300} {
				in := Record12{Type: 23, Epoch: 1, Seq: 0x010203040506, Payload: bytes.Repeat([]byte{0xab}, n)}
				if wrap {
					in.WrapCID, in.CID, in.Pad = true, []byte{9, 8, 7}, 5
				}
				rec, err := Seal12(s, kb.Client(), in)
				if err != nil {
					t.Fatalf("%s: %v", s.Name, err)
				}
				out, err := Open12(s, kb.Client(), rec, 3)
				if err != nil {
					t.Fatalf("%s wrap=%v n=%d: %v", s.Name, wrap, n, err)
				}
				if !bytes.Equal(out.Payload, in.Payload) || out.Type != 23 || out.Pad != in.Pad || out.Seq != in.Seq || out.Epoch != 1 {
					t.Fatalf("%s: round trip mismatch %+v", s.Name, out)
				}
				if _, err := Open12(s, kb.Server(), rec, 3); err == nil {
					t.Fatalf("%s: opened with the wrong direction's keys", s.Name)
				}
				rec[len(rec)-1] ^= 1
				if _, err := Open12(s, kb.Client(), rec, 3); err == nil {
					t.Fatalf("%s: opened a modified record", s.Name)
				}
			}
		}
	}
}

func TestRoundTrip13(t *testing.T) {
	for _, s := range Suites13() {
		k := TrafficKeys13(s, bytes.Repeat([]byte{5}, s.Hash.Size()))
		for _, cid := range [][]byte{nil, {1, 2, 3, 4}} {
			for _, s16 := range []bool{false, true} {
				for _, l := range []bool{false, true} {
					in := Record13{Type: 23, Epoch: 3, Seq: 0x12345, CID: cid, Seq16: s16, WithLength: l, Pad: 3, Payload: []byte("hello")}
					rec, err := Seal13(s, k, in)
					if err != nil {
						t.Fatal(err)
					}
					out, rest, err := Open13(s, k, rec, len(cid), 0x12340)
					if err != nil {
						t.Fatalf("%s cid=%v s=%v l=%v: %v", s.Name, cid, s16, l, err)
					}
					if len(rest) != 0 || out.Seq != in.Seq || out.Type != 23 || out.Pad != 3 || string(out.Payload) != "hello" || out.Epoch != 3 {
						t.Fatalf("%s: round trip mismatch %+v", s.Name, out)
					}
				}
			}
		}
	}
}

func TestReconstructSeq(t *testing.T) {
	for _, c := range []struct {
		exp  uint64
		low  uint16
		s16  bool
		want uint64
	}{
		{0, 0, false, 0}, {0x100, 0xff, false, 0xff}, {0xff, 0x01, false, 0x101}, {0x1fffe, 0x0001, true, 0x20001},
		{0x20001, 0xfffe, true, 0x1fffe}, {5, 0xfe, false, 0xfe},
	} {
		if got := ReconstructSeq(c.exp, c.low, c.s16); got != c.want {
			t.Fatalf("ReconstructSeq(%x,%x,%v) = %x, want %x", c.exp, c.low, c.s16, got, c.want)
		}
	}
}

func TestParsers(t *testing.T) {
	e, ok, err := ParseKeyLogLine("CLIENT_RANDOM 0102 a0b0\n")
	if err != nil || !ok || e.Label != "CLIENT_RANDOM" || !bytes.Equal(e.ClientRandom, []byte{1, 2}) || !bytes.Equal(e.Secret, []byte{0xa0, 0xb0}) {
		t.Fatalf("key log: %+v %v %v", e, ok, err)
	}
	m := HandshakeMessage12(20, 7, []byte{1, 2, 3})
	c, err := Canonical13(m)
	if err != nil || !bytes.Equal(c, []byte{20, 0, 0, 3, 1, 2, 3}) {
		t.Fatalf("canonical: %x %v", c, err)
	}
	r12, _ := Seal12(Suites12()[2], Keys12{Key: make([]byte, 16), IV: make([]byte, 4)}, Record12{Type: 23, Epoch: 1, Payload: []byte("a")})
	s13 := Suites13()[0]
	r13, _ := Seal13(s13, TrafficKeys13(s13, make([]byte, 32)), Record13{Type: 23, Epoch: 3, Seq16: true, WithLength: true, Payload: []byte("b")})
	r13b, _ := Seal13(s13, TrafficKeys13(s13, make([]byte, 32)), Record13{Type: 23, Epoch: 3, Payload: []byte("c")})
	dg := cat(r12, r13, r13b)
	for i, want := range [][]byte{r12, r13, r13b} {
		rec, rest, uni, err := NextRecord(dg, 0)
		if err != nil || !bytes.Equal(rec, want) || uni != (i > 0) {
			t.Fatalf("NextRecord %d: %x %v %v", i, rec, uni, err)
		}
		dg = rest
	}
	if len(dg) != 0 {
		t.Fatal("NextRecord left bytes")
	}
	eq(t, "psk premaster", PSKPremaster([]byte{0xaa, 0xbb}), []byte{0, 2, 0, 0, 0, 2, 0xaa, 0xbb})
	eq(t, "ecdhe psk premaster", ECDHEPSKPremaster([]byte{1, 2, 3}, []byte{0xaa}), []byte{0, 3, 1, 2, 3, 0, 1, 0xaa})
}
