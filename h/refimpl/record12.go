package refimpl

import (
	"crypto/aes"
	"crypto/cipher"
	"crypto/hmac"
	"crypto/sha256"
	"crypto/subtle"
	"encoding/binary"
	"errors"
	"fmt"

	"golang.org/x/crypto/chacha20poly1305"
)

// ContentTypeCID is tls12_cid (RFC 9146 §4).
const ContentTypeCID = 25

// Record12 describes one DTLS 1.2 record, in the clear.
type Record12 struct {
	// Type is the content type of the payload. For a CID record it is the inner real_type and the
	// outer type on the wire is tls12_cid (25).
	Type uint8
	// Version is the record version; the zero value means DTLS 1.2 {0xfe, 0xfd}.
	Version [2]byte
	Epoch   uint16
	Seq     uint64 // 48 bits
	// WrapCID selects the RFC 9146 record format (outer type 25, CID in the header, inner plaintext
	// content || real_type || zeros); CID is the connection ID carried in the header.
	WrapCID bool
	CID     []byte
	// Pad is the number of zero octets appended to the inner plaintext (CID records only).
	Pad int
	// Explicit is what the record carries in front of the ciphertext: the 8-byte nonce_explicit of
	// GCM/CCM or the 16-byte CBC IV. nil selects epoch || sequence_number for GCM/CCM (RFC 5288 §3
	// allows any unique value; RFC 9325 §7.2.1 recommends this one) and, for CBC, a fixed function of
	// key, epoch and sequence number (deterministic, for tests only). Must be nil for ChaCha20-Poly1305.
	Explicit []byte
	// ExtraPadBlocks adds whole blocks of CBC padding (the padding length stays <= 255).
	ExtraPadBlocks int
	Payload        []byte
}

func (r *Record12) version() [2]byte {
	if r.Version == [2]byte{} {
		return [2]byte{0xfe, 0xfd}
	}

	return r.Version
}

func seq64(epoch uint16, seq uint64) []byte {
	var b [8]byte
	binary.BigEndian.PutUint64(b[:], uint64(epoch)<<48|seq&0xffffffffffff)

	return b[:]
}

// Header12 is the record header as sent: type, version, epoch, 48-bit sequence number, [cid], length.
func Header12(outerType uint8, version [2]byte, epoch uint16, seq uint64, cid []byte, length int) []byte {
	return cat([]byte{outerType, version[0], version[1]}, seq64(epoch, seq), cid, u16(length))
}

// InnerPlaintext12 is DTLSInnerPlaintext of RFC 9146 §4: content || real_type || zeros.
func InnerPlaintext12(content []byte, realType uint8, pad int) []byte {
	return cat(content, []byte{realType}, make([]byte, pad))
}

// SplitInnerPlaintext removes the zero padding and the real type (RFC 9146 §4 / RFC 8446 §5.4).
func SplitInnerPlaintext(inner []byte) (content []byte, realType uint8, pad int, err error) {
	i := len(inner) - 1
	for i >= 0 && inner[i] == 0 {
		i--
	}
	if i < 0 {
		return nil, 0, 0, errors.New("refimpl: inner plaintext has no content type")
	}

	return inner[:i], inner[i], len(inner) - 1 - i, nil
}

// AAD12 is additional_data of RFC 5246 §6.2.3.3 with the DTLS sequence number (RFC 6347 §4.1.2.1):
// epoch(2) || sequence_number(6) || type || version || length of the plaintext.
func AAD12(typ uint8, version [2]byte, epoch uint16, seq uint64, plaintextLen int) []byte {
	return cat(seq64(epoch, seq), []byte{typ, version[0], version[1]}, u16(plaintextLen))
}

// AAD12CID is additional_data of RFC 9146 §5.3:
// seq_num_placeholder(8 x 0xff) || tls12_cid || cid_length || tls12_cid || version || epoch ||
// sequence_number || cid || length_of_DTLSInnerPlaintext.
func AAD12CID(version [2]byte, epoch uint16, seq uint64, cid []byte, innerLen int) []byte {
	return cat(
		[]byte{0xff, 0xff, 0xff, 0xff, 0xff, 0xff, 0xff, 0xff},
		[]byte{ContentTypeCID, byte(len(cid)), ContentTypeCID, version[0], version[1]},
		seq64(epoch, seq), cid, u16(innerLen),
	)
}

// MAC12 is the record MAC of RFC 5246 §6.2.3.1 over
// epoch || sequence_number || type || version || length || fragment.
func MAC12(h HashID, key []byte, typ uint8, version [2]byte, epoch uint16, seq uint64, fragment []byte) []byte {
	m := hmac.New(h.New(), key)
	m.Write(AAD12(typ, version, epoch, seq, len(fragment)))
	m.Write(fragment)

	return m.Sum(nil)
}

// MAC12CID is the MAC-then-encrypt MAC of RFC 9146 §5.1: the AAD12CID octets followed by the
// DTLSInnerPlaintext (content || real_type || zeros).
func MAC12CID(h HashID, key []byte, version [2]byte, epoch uint16, seq uint64, cid, inner []byte) []byte {
	m := hmac.New(h.New(), key)
	m.Write(AAD12CID(version, epoch, seq, cid, len(inner)))
	m.Write(inner)

	return m.Sum(nil)
}

// Nonce12 is the AEAD nonce: GCM/CCM write_IV(4) || nonce_explicit(8) (RFC 5288 §3, RFC 6655 §3);
// ChaCha20-Poly1305 write_IV(12) XOR (0^32 || epoch || sequence_number) (RFC 7905 §2).
func Nonce12(s *Suite, iv []byte, epoch uint16, seq uint64, explicit []byte) ([]byte, error) {
	if len(iv) != s.FixedIVLen {
		return nil, fmt.Errorf("refimpl: write IV is %d bytes, want %d", len(iv), s.FixedIVLen)
	}
	switch s.Kind {
	case KindGCM, KindCCM:
		if len(explicit) != 8 {
			return nil, errors.New("refimpl: nonce_explicit must be 8 bytes")
		}

		return cat(iv, explicit), nil
	case KindChaCha:
		n := append([]byte(nil), iv...)
		for i, b := range seq64(epoch, seq) {
			n[4+i] ^= b
		}

		return n, nil
	}

	return nil, errors.New("refimpl: suite has no AEAD nonce")
}

// AEAD12 returns the AEAD of a TLS 1.2 AEAD suite (also used for the TLS 1.3 rows).
func AEAD12(s *Suite, key []byte) (cipher.AEAD, error) {
	if len(key) != s.KeyLen {
		return nil, fmt.Errorf("refimpl: key is %d bytes, want %d", len(key), s.KeyLen)
	}
	switch s.Kind {
	case KindGCM:
		b, err := aes.NewCipher(key)
		if err != nil {
			return nil, err
		}

		return cipher.NewGCM(b)
	case KindCCM:
		b, err := aes.NewCipher(key)
		if err != nil {
			return nil, err
		}

		return NewCCM(b, s.TagLen, 12)
	case KindChaCha:
		return chacha20poly1305.New(key)
	}

	return nil, errors.New("refimpl: not an AEAD suite")
}

// CBCEncryptRaw CBC-encrypts block-aligned data (for forgers that build content || MAC || padding by hand).
func CBCEncryptRaw(key, iv, data []byte) ([]byte, error) {
	b, err := aes.NewCipher(key)
	if err != nil {
		return nil, err
	}
	if len(iv) != 16 || len(data)%16 != 0 {
		return nil, errors.New("refimpl: CBC needs a 16-byte IV and block-aligned data")
	}
	out := make([]byte, len(data))
	cipher.NewCBCEncrypter(b, iv).CryptBlocks(out, data)

	return out, nil
}

// CBCDecryptRaw CBC-decrypts block-aligned data without interpreting MAC or padding (for diagnostics).
func CBCDecryptRaw(key, iv, data []byte) ([]byte, error) {
	b, err := aes.NewCipher(key)
	if err != nil {
		return nil, err
	}
	if len(iv) != 16 || len(data)%16 != 0 {
		return nil, errors.New("refimpl: CBC needs a 16-byte IV and block-aligned data")
	}
	out := make([]byte, len(data))
	cipher.NewCBCDecrypter(b, iv).CryptBlocks(out, data)

	return out, nil
}

func defaultCBCIV(key []byte, epoch uint16, seq uint64) []byte {
	d := sha256.Sum256(cat([]byte("refimpl cbc iv"), key, seq64(epoch, seq)))

	return d[:16]
}

// Seal12 protects one record with the write keys k of suite s and returns the whole record
// (header included).
func Seal12(s *Suite, k Keys12, r Record12) ([]byte, error) {
	if s.TLS13 {
		return nil, errors.New("refimpl: Seal12 with a TLS 1.3 suite")
	}
	ver := r.version()
	outer, fragment := r.Type, r.Payload
	var cid []byte
	if r.WrapCID {
		outer, cid = ContentTypeCID, r.CID
		fragment = InnerPlaintext12(r.Payload, r.Type, r.Pad)
	} else if r.Pad != 0 {
		return nil, errors.New("refimpl: padding needs a CID record")
	}
	if r.Seq>>48 != 0 {
		return nil, errors.New("refimpl: sequence number exceeds 48 bits")
	}

	var body []byte
	switch s.Kind {
	case KindGCM, KindCCM, KindChaCha:
		explicit := r.Explicit
		if s.ExplicitLen == 0 && explicit != nil {
			return nil, errors.New("refimpl: suite has no explicit nonce")
		}
		if s.ExplicitLen == 8 && explicit == nil {
			explicit = seq64(r.Epoch, r.Seq)
		}
		nonce, err := Nonce12(s, k.IV, r.Epoch, r.Seq, explicit)
		if err != nil {
			return nil, err
		}
		aead, err := AEAD12(s, k.Key)
		if err != nil {
			return nil, err
		}
		aad := AAD12(outer, ver, r.Epoch, r.Seq, len(fragment))
		if r.WrapCID {
			aad = AAD12CID(ver, r.Epoch, r.Seq, cid, len(fragment))
		}
		body = aead.Seal(append([]byte(nil), explicit...), nonce, fragment, aad)
	case KindCBC:
		if len(k.MAC) != s.MACLen {
			return nil, fmt.Errorf("refimpl: MAC key is %d bytes, want %d", len(k.MAC), s.MACLen)
		}
		mac := MAC12(s.MAC, k.MAC, outer, ver, r.Epoch, r.Seq, fragment)
		if r.WrapCID {
			mac = MAC12CID(s.MAC, k.MAC, ver, r.Epoch, r.Seq, cid, fragment)
		}
		data := cat(fragment, mac)
		padLen := 15 - len(data)%16 + 16*r.ExtraPadBlocks // value of padding_length
		if padLen > 255 {
			return nil, errors.New("refimpl: CBC padding exceeds 255")
		}
		for i := 0; i <= padLen; i++ {
			data = append(data, byte(padLen))
		}
		iv := r.Explicit
		if iv == nil {
			iv = defaultCBCIV(k.Key, r.Epoch, r.Seq)
		}
		ct, err := CBCEncryptRaw(k.Key, iv, data)
		if err != nil {
			return nil, err
		}
		body = cat(iv, ct)
	default:
		return nil, errors.New("refimpl: unknown suite kind")
	}
	if len(body) > 0xffff {
		return nil, errors.New("refimpl: record too long")
	}

	return cat(Header12(outer, ver, r.Epoch, r.Seq, cid, len(body)), body), nil
}

// ErrOpen is returned when a record does not authenticate.
var ErrOpen = errors.New("refimpl: record authentication failed")

// Open12 parses and opens one whole record (header included) with the peer's write keys k.
// cidLen is the length of the connection ID expected in tls12_cid records.
func Open12(s *Suite, k Keys12, record []byte, cidLen int) (Record12, error) {
	var r Record12
	if s.TLS13 {
		return r, errors.New("refimpl: Open12 with a TLS 1.3 suite")
	}
	h, body, rest, err := ParseRecord12(record, cidLen)
	if err != nil {
		return r, err
	}
	if len(rest) != 0 {
		return r, errors.New("refimpl: trailing bytes after the record")
	}
	r.Version, r.Epoch, r.Seq = h.Version, h.Epoch, h.Seq
	r.WrapCID = h.Type == ContentTypeCID
	r.CID = h.CID

	var fragment []byte
	switch s.Kind {
	case KindGCM, KindCCM, KindChaCha:
		if len(body) < s.ExplicitLen+s.TagLen {
			return r, errors.New("refimpl: record shorter than nonce and tag")
		}
		var explicit []byte
		if s.ExplicitLen > 0 {
			explicit = body[:s.ExplicitLen]
			r.Explicit = explicit
		}
		ct := body[s.ExplicitLen:]
		nonce, err := Nonce12(s, k.IV, h.Epoch, h.Seq, explicit)
		if err != nil {
			return r, err
		}
		aead, err := AEAD12(s, k.Key)
		if err != nil {
			return r, err
		}
		aad := AAD12(h.Type, h.Version, h.Epoch, h.Seq, len(ct)-s.TagLen)
		if r.WrapCID {
			aad = AAD12CID(h.Version, h.Epoch, h.Seq, h.CID, len(ct)-s.TagLen)
		}
		fragment, err = aead.Open(nil, nonce, ct, aad)
		if err != nil {
			return r, ErrOpen
		}
		if fragment == nil {
			fragment = []byte{}
		}
	case KindCBC:
		macLen := s.MAC.Size()
		if len(body)%16 != 0 || len(body) < 32 {
			return r, errors.New("refimpl: CBC record is not IV plus whole blocks")
		}
		b, err := aes.NewCipher(k.Key)
		if err != nil {
			return r, err
		}
		r.Explicit = body[:16]
		data := make([]byte, len(body)-16)
		cipher.NewCBCDecrypter(b, body[:16]).CryptBlocks(data, body[16:])
		padLen := int(data[len(data)-1])
		if padLen+1+macLen > len(data) {
			return r, ErrOpen
		}
		for _, p := range data[len(data)-1-padLen:] {
			if int(p) != padLen {
				return r, ErrOpen
			}
		}
		r.ExtraPadBlocks = padLen / 16
		fragment = data[:len(data)-1-padLen-macLen]
		got := data[len(fragment) : len(fragment)+macLen]
		want := MAC12(s.MAC, k.MAC, h.Type, h.Version, h.Epoch, h.Seq, fragment)
		if r.WrapCID {
			want = MAC12CID(s.MAC, k.MAC, h.Version, h.Epoch, h.Seq, h.CID, fragment)
		}
		if subtle.ConstantTimeCompare(got, want) != 1 {
			return r, ErrOpen
		}
	default:
		return r, errors.New("refimpl: unknown suite kind")
	}

	if r.WrapCID {
		content, typ, pad, err := SplitInnerPlaintext(fragment)
		if err != nil {
			return r, err
		}
		r.Payload, r.Type, r.Pad = content, typ, pad
	} else {
		r.Payload, r.Type = fragment, h.Type
	}

	return r, nil
}
