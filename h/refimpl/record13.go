package refimpl

import (
	"crypto/aes"
	"encoding/binary"
	"errors"
	"math/bits"
)

// Record13 describes one DTLS 1.3 protected record (DTLSCiphertext, RFC 9147 §4), in the clear.
type Record13 struct {
	// Type is the inner content type (DTLSInnerPlaintext.type).
	Type uint8
	// Epoch is the full epoch; only its low 2 bits are carried in the unified header. After Open13 only
	// those 2 bits are known.
	Epoch uint16
	// Seq is the record sequence number. It is encoded as a 64-bit integer in the per-record nonce
	// (RFC 8446 §5.3, RFC 9147 §4) and its low 8 or 16 bits are carried (encrypted) in the header.
	Seq uint64
	// CID is the connection ID carried in the header; the C bit is set iff len(CID) > 0.
	CID []byte
	// Seq16 is the S bit (16-bit sequence number), WithLength the L bit (length field present).
	Seq16      bool
	WithLength bool
	// Pad is the number of zero octets appended to the inner plaintext (RFC 8446 §5.4).
	Pad     int
	Payload []byte
}

// UnifiedHeader is the parsed unified header of RFC 9147 §4 (Figure 3).
type UnifiedHeader struct {
	CID        []byte
	SeqLow     uint16 // 8 or 16 low bits as found in the header (encrypted on the wire)
	Seq16      bool   // S
	WithLength bool   // L
	Length     uint16
	EpochLow   uint8 // E E
	Size       int   // header length in bytes
}

// Marshal encodes the header: 0 0 1 C S L E E | CID | 8- or 16-bit sequence number | [16-bit length].
func (u UnifiedHeader) Marshal() []byte {
	b := byte(0x20) | u.EpochLow&3
	out := []byte{0}
	if len(u.CID) > 0 {
		b |= 0x10
		out = append(out, u.CID...)
	}
	if u.Seq16 {
		b |= 0x08
		out = append(out, byte(u.SeqLow>>8), byte(u.SeqLow))
	} else {
		out = append(out, byte(u.SeqLow))
	}
	if u.WithLength {
		b |= 0x04
		out = append(out, byte(u.Length>>8), byte(u.Length))
	}
	out[0] = b

	return out
}

// ParseUnifiedHeader parses a unified header; cidLen is the negotiated CID length (used iff C is set).
func ParseUnifiedHeader(data []byte, cidLen int) (UnifiedHeader, error) {
	var u UnifiedHeader
	if len(data) < 1 || data[0]&0xe0 != 0x20 {
		return u, errors.New("refimpl: not a unified header")
	}
	b, p := data[0], 1
	need := func(n int) bool { return len(data) >= p+n }
	if b&0x10 != 0 {
		if !need(cidLen) {
			return u, errors.New("refimpl: short unified header")
		}
		u.CID = data[p : p+cidLen]
		p += cidLen
	}
	if b&0x08 != 0 {
		if !need(2) {
			return u, errors.New("refimpl: short unified header")
		}
		u.Seq16, u.SeqLow = true, binary.BigEndian.Uint16(data[p:])
		p += 2
	} else {
		if !need(1) {
			return u, errors.New("refimpl: short unified header")
		}
		u.SeqLow = uint16(data[p])
		p++
	}
	if b&0x04 != 0 {
		if !need(2) {
			return u, errors.New("refimpl: short unified header")
		}
		u.WithLength, u.Length = true, binary.BigEndian.Uint16(data[p:])
		p += 2
	}
	u.EpochLow = b & 3
	u.Size = p

	return u, nil
}

// Nonce13 is the per-record nonce of RFC 8446 §5.3: the 64-bit record sequence number, left-padded with
// zeros to iv_length, XORed with the write IV.
func Nonce13(iv []byte, seq uint64) []byte {
	n := append([]byte(nil), iv...)
	var s [8]byte
	binary.BigEndian.PutUint64(s[:], seq)
	for i, b := range s {
		n[len(n)-8+i] ^= b
	}

	return n
}

// chacha20Block is the ChaCha20 block function of RFC 8439 §2.3 (key 32 bytes, counter word, nonce 12 bytes).
func chacha20Block(key []byte, counter uint32, nonce []byte) [64]byte {
	var s [16]uint32
	s[0], s[1], s[2], s[3] = 0x61707865, 0x3320646e, 0x79622d32, 0x6b206574
	for i := 0; i < 8; i++ {
		s[4+i] = binary.LittleEndian.Uint32(key[4*i:])
	}
	s[12] = counter
	for i := 0; i < 3; i++ {
		s[13+i] = binary.LittleEndian.Uint32(nonce[4*i:])
	}
	w := s
	qr := func(a, b, c, d int) {
		w[a] += w[b]
		w[d] = bits.RotateLeft32(w[d]^w[a], 16)
		w[c] += w[d]
		w[b] = bits.RotateLeft32(w[b]^w[c], 12)
		w[a] += w[b]
		w[d] = bits.RotateLeft32(w[d]^w[a], 8)
		w[c] += w[d]
		w[b] = bits.RotateLeft32(w[b]^w[c], 7)
	}
	for i := 0; i < 10; i++ {
		qr(0, 4, 8, 12)
		qr(1, 5, 9, 13)
		qr(2, 6, 10, 14)
		qr(3, 7, 11, 15)
		qr(0, 5, 10, 15)
		qr(1, 6, 11, 12)
		qr(2, 7, 8, 13)
		qr(3, 4, 9, 14)
	}
	var out [64]byte
	for i := range w {
		binary.LittleEndian.PutUint32(out[4*i:], w[i]+s[i])
	}

	return out
}

// SNMask is the record-number encryption mask of RFC 9147 §4.2.3 computed from the first 16 bytes of
// the ciphertext: AES-ECB(sn_key, Ciphertext[0..15]) for the AES suites; for ChaCha20 the first 4 bytes
// are the block counter and the next 12 the nonce of one ChaCha20 block.
func SNMask(s *Suite, snKey, ciphertext []byte) ([]byte, error) {
	if len(ciphertext) < 16 {
		return nil, errors.New("refimpl: ciphertext shorter than 16 bytes")
	}
	if len(snKey) != s.KeyLen {
		return nil, errors.New("refimpl: sn_key length")
	}
	switch s.Kind {
	case KindGCM, KindCCM:
		b, err := aes.NewCipher(snKey)
		if err != nil {
			return nil, err
		}
		mask := make([]byte, 16)
		b.Encrypt(mask, ciphertext[:16])

		return mask, nil
	case KindChaCha:
		blk := chacha20Block(snKey, binary.LittleEndian.Uint32(ciphertext[:4]), ciphertext[4:16])

		return blk[:], nil
	}

	return nil, errors.New("refimpl: suite has no sequence-number mask")
}

// ReconstructSeq returns the sequence number closest to expected whose low bits (8 or 16) equal low
// (RFC 9147 §4.2.2).
func ReconstructSeq(expected uint64, low uint16, seq16 bool) uint64 {
	w := uint64(1) << 8
	if seq16 {
		w = 1 << 16
	}
	cand := expected&^(w-1) | uint64(low)&(w-1)
	best, bestDist := cand, dist(cand, expected)
	if cand >= w {
		if d := dist(cand-w, expected); d < bestDist {
			best, bestDist = cand-w, d
		}
	}
	if cand+w > cand {
		if d := dist(cand+w, expected); d < bestDist {
			best = cand + w
		}
	}

	return best
}

func dist(a, b uint64) uint64 {
	if a > b {
		return a - b
	}

	return b - a
}

// Seal13 protects one record under the traffic keys k and returns header || ciphertext.
// additional_data is the header with the clear sequence number; the sequence-number bytes on the wire
// are then XORed with the mask (RFC 9147 §4, §4.2.3).
func Seal13(s *Suite, k Keys13, r Record13) ([]byte, error) {
	if !s.TLS13 {
		return nil, errors.New("refimpl: Seal13 with a TLS 1.2 suite")
	}
	if r.Type == 0 {
		return nil, errors.New("refimpl: inner content type 0")
	}
	aead, err := AEAD12(s, k.Key)
	if err != nil {
		return nil, err
	}
	if len(k.IV) != 12 {
		return nil, errors.New("refimpl: write IV must be 12 bytes")
	}
	inner := cat(r.Payload, []byte{r.Type}, make([]byte, r.Pad))
	ctLen := len(inner) + s.TagLen
	if ctLen > 0xffff {
		return nil, errors.New("refimpl: record too long")
	}
	h := UnifiedHeader{
		CID: r.CID, SeqLow: uint16(r.Seq), Seq16: r.Seq16, WithLength: r.WithLength,
		Length: uint16(ctLen), EpochLow: uint8(r.Epoch & 3),
	}
	if !r.Seq16 {
		h.SeqLow &= 0xff
	}
	hdr := h.Marshal()
	ct := aead.Seal(nil, Nonce13(k.IV, r.Seq), inner, hdr)
	mask, err := SNMask(s, k.SNKey, ct)
	if err != nil {
		return nil, err
	}
	p := 1 + len(r.CID)
	hdr[p] ^= mask[0]
	if r.Seq16 {
		hdr[p+1] ^= mask[1]
	}

	return cat(hdr, ct), nil
}

// Open13 parses and opens the first record of data with the peer's traffic keys k. cidLen is the
// negotiated CID length; expectedSeq is the receiver's next expected sequence number, used to
// reconstruct the full sequence number from the 8/16 bits on the wire. It returns the record and the
// bytes following it (a record without a length field extends to the end of the datagram).
func Open13(s *Suite, k Keys13, data []byte, cidLen int, expectedSeq uint64) (Record13, []byte, error) {
	var r Record13
	if !s.TLS13 {
		return r, nil, errors.New("refimpl: Open13 with a TLS 1.2 suite")
	}
	h, err := ParseUnifiedHeader(data, cidLen)
	if err != nil {
		return r, nil, err
	}
	ct, rest := data[h.Size:], []byte(nil)
	if h.WithLength {
		if len(ct) < int(h.Length) {
			return r, nil, errors.New("refimpl: record truncated")
		}
		ct, rest = ct[:h.Length], ct[h.Length:]
	}
	mask, err := SNMask(s, k.SNKey, ct)
	if err != nil {
		return r, nil, err
	}
	if h.Seq16 {
		h.SeqLow ^= uint16(mask[0])<<8 | uint16(mask[1])
	} else {
		h.SeqLow ^= uint16(mask[0])
	}
	seq := ReconstructSeq(expectedSeq, h.SeqLow, h.Seq16)
	aead, err := AEAD12(s, k.Key)
	if err != nil {
		return r, nil, err
	}
	if len(k.IV) != 12 {
		return r, nil, errors.New("refimpl: write IV must be 12 bytes")
	}
	inner, err := aead.Open(nil, Nonce13(k.IV, seq), ct, h.Marshal())
	if err != nil {
		return r, nil, ErrOpen
	}
	content, typ, pad, err := SplitInnerPlaintext(inner)
	if err != nil {
		return r, nil, err
	}
	r = Record13{
		Type: typ, Epoch: uint16(h.EpochLow), Seq: seq, CID: h.CID, Seq16: h.Seq16, WithLength: h.WithLength,
		Pad: pad, Payload: content,
	}

	return r, rest, nil
}
