package refimpl

import (
	"crypto/cipher"
	"crypto/subtle"
	"errors"
)

// ccm is AES-CCM written from RFC 3610 (generic in M = tag length and L = 15 - nonce length).
type ccm struct {
	b        cipher.Block
	tagLen   int // M
	nonceLen int // 15 - L
}

// NewCCM returns CCM over a 128-bit block cipher with the given tag length M (4..16, even) and nonce
// length 15-L (7..13). TLS uses nonceLen 12 (L = 3) and M = 16 or 8 (RFC 6655 §3, §4).
func NewCCM(b cipher.Block, tagLen, nonceLen int) (cipher.AEAD, error) {
	if b.BlockSize() != 16 {
		return nil, errors.New("refimpl: CCM needs a 128-bit block cipher")
	}
	if tagLen < 4 || tagLen > 16 || tagLen%2 != 0 {
		return nil, errors.New("refimpl: CCM tag length")
	}
	if nonceLen < 7 || nonceLen > 13 {
		return nil, errors.New("refimpl: CCM nonce length")
	}

	return &ccm{b: b, tagLen: tagLen, nonceLen: nonceLen}, nil
}

func (c *ccm) NonceSize() int { return c.nonceLen }
func (c *ccm) Overhead() int  { return c.tagLen }

// tag computes T, the CBC-MAC of RFC 3610 §2.2 (before encryption with S_0).
func (c *ccm) tag(nonce, msg, aad []byte) []byte {
	l := 15 - c.nonceLen
	var x [16]byte
	// B_0 = flags | nonce | l(m)
	x[0] = byte(8*((c.tagLen-2)/2) + (l - 1))
	if len(aad) > 0 {
		x[0] |= 64
	}
	copy(x[1:], nonce)
	n := uint64(len(msg))
	for i := 0; i < l; i++ {
		x[15-i] = byte(n >> (8 * i))
	}
	c.b.Encrypt(x[:], x[:]) // X_1

	absorb := func(data []byte) {
		for len(data) > 0 {
			k := len(data)
			if k > 16 {
				k = 16
			}
			for i := 0; i < k; i++ {
				x[i] ^= data[i]
			}
			c.b.Encrypt(x[:], x[:])
			data = data[k:]
		}
	}
	if len(aad) > 0 {
		var enc []byte
		la := uint64(len(aad))
		switch {
		case la < (1<<16)-(1<<8):
			enc = []byte{byte(la >> 8), byte(la)}
		case la < 1<<32:
			enc = []byte{0xff, 0xfe, byte(la >> 24), byte(la >> 16), byte(la >> 8), byte(la)}
		default:
			enc = []byte{0xff, 0xff, byte(la >> 56), byte(la >> 48), byte(la >> 40), byte(la >> 32), byte(la >> 24), byte(la >> 16), byte(la >> 8), byte(la)}
		}
		absorb(append(enc, aad...)) // zero padding to the block is implicit in absorb
	}
	absorb(msg)

	return append([]byte(nil), x[:c.tagLen]...)
}

// stream XORs data with S_1, S_2, ... and returns S_0 (RFC 3610 §2.3).
func (c *ccm) stream(nonce, dst, src []byte) (s0 [16]byte) {
	l := 15 - c.nonceLen
	var a, s [16]byte
	a[0] = byte(l - 1)
	copy(a[1:], nonce)
	c.b.Encrypt(s0[:], a[:])
	for i := uint64(1); len(src) > 0; i++ {
		for j := 0; j < l; j++ {
			a[15-j] = byte(i >> (8 * j))
		}
		c.b.Encrypt(s[:], a[:])
		k := len(src)
		if k > 16 {
			k = 16
		}
		for j := 0; j < k; j++ {
			dst[j] = src[j] ^ s[j]
		}
		dst, src = dst[k:], src[k:]
	}

	return s0
}

func (c *ccm) Seal(dst, nonce, plaintext, aad []byte) []byte {
	if len(nonce) != c.nonceLen {
		panic("refimpl: CCM nonce length")
	}
	t := c.tag(nonce, plaintext, aad)
	out := make([]byte, len(plaintext)+c.tagLen)
	s0 := c.stream(nonce, out, plaintext)
	for i := 0; i < c.tagLen; i++ {
		out[len(plaintext)+i] = t[i] ^ s0[i]
	}

	return append(dst, out...)
}

var errCCMOpen = errors.New("refimpl: CCM authentication failed")

func (c *ccm) Open(dst, nonce, ciphertext, aad []byte) ([]byte, error) {
	if len(nonce) != c.nonceLen {
		return nil, errors.New("refimpl: CCM nonce length")
	}
	if len(ciphertext) < c.tagLen {
		return nil, errCCMOpen
	}
	n := len(ciphertext) - c.tagLen
	pt := make([]byte, n)
	s0 := c.stream(nonce, pt, ciphertext[:n])
	t := c.tag(nonce, pt, aad)
	for i := range t {
		t[i] ^= s0[i]
	}
	if subtle.ConstantTimeCompare(t, ciphertext[n:]) != 1 {
		return nil, errCCMOpen
	}

	return append(dst, pt...), nil
}
