// Package refimpl is an independent reference implementation of the DTLS 1.2 / DTLS 1.3 key derivation
// and record protection, written from the RFCs. It imports only the Go standard library and the
// golang.org/x/crypto primitives chacha20poly1305 (the AEAD itself) and, in its tests, chacha20; it never
// imports a github.com/pion package. P_hash, HKDF, HKDF-Expand-Label, CCM (RFC 3610), the ChaCha20
// block function used for DTLS 1.3 sequence-number masks, all nonce / additional-data / MAC layouts and
// all header codecs are implemented here by hand so that a deviation shared by both directions of the
// library under test cannot hide. refimpl_test.go pins it to RFC 5869 A.1, the TLS 1.2 PRF SHA-256
// vector, RFC 3610 vector #1, the RFC 8448 §3 schedule prefix and the RFC 8439 §2.3.2 block vector.
//
// It serves three users: the C10 differential check (../c10), passive decoders keyed from a key log or
// a secrets snapshot, and forgers that seal arbitrary plaintext with a peer's keys. It is deliberately
// boring: plain functions over byte slices, no state, no randomness, no clocks.
//
// # Cipher-suite table (suites.go)
//
//	Suites, SuiteByID(id), Suites12(), Suites13()   every suite pion/dtls lists, with Kind (GCM, CCM, CBC,
//	        CHACHA), PRF/HKDF Hash, CBC MAC hash, KeyLen, MACLen, FixedIVLen, ExplicitLen, TagLen, Kx, Auth
//	HashID (SHA1, SHA256, SHA384) with New() and Size()
//
// # TLS 1.2 derivations (tls12.go)
//
//	PHash(h, secret, seed, n)                              RFC 5246 §5 P_hash
//	PRF(h, secret, label, seed, n)                         RFC 5246 §5
//	MasterSecret(h, premaster, clientRandom, serverRandom) RFC 5246 §8.1
//	ExtendedMasterSecret(h, premaster, sessionHash)        RFC 7627 §4
//	KeyBlockRaw(h, ms, cr, sr, macLen, keyLen, ivLen)      RFC 5246 §6.3 partition -> KeyBlock
//	KeyBlockFor(suite, ms, cr, sr)                         the same with the table's lengths
//	KeyBlock.Client() / Server() / Writer(isClient)        -> Keys12{MAC, Key, IV} of one direction
//	VerifyData(h, ms, handshakeMessages, client)           RFC 5246 §7.4.9; VerifyDataFromHash
//	Exporter12(h, ms, cr, sr, label, ctx, hasCtx, n)       RFC 5705 §4
//	PSKPremaster(psk), ECDHEPSKPremaster(z, psk)           RFC 4279 §2, RFC 5489 §2
//	SignedECDHParams(cr, sr, namedCurve, point)            RFC 8422 §5.4 (what ServerKeyExchange signs)
//
// # DTLS 1.2 record protection (record12.go, ccm.go)
//
//	Record12{Type, Version, Epoch, Seq, WrapCID, CID, Pad, Explicit, ExtraPadBlocks, Payload}
//	Seal12(suite, keys, rec) -> whole record            Open12(suite, keys, record, cidLen) -> Record12
//	    GCM/CCM: nonce = write_IV(4) || explicit(8) (RFC 5288 §3, RFC 6655 §3), explicit defaults to
//	    epoch||seq and may be chosen by the caller; ChaCha20-Poly1305: write_IV XOR (0^32||epoch||seq)
//	    (RFC 7905 §2); CBC: HMAC then CBC with explicit IV and padding (RFC 5246 §6.2.3.1/.2), IV and extra
//	    padding blocks may be chosen; CID records: outer type 25, header carries the CID, inner plaintext
//	    content||real_type||zeros, AAD / MAC per RFC 9146 §5.3 / §5.1.
//	Pieces for forgers and diagnostics: Header12, InnerPlaintext12, SplitInnerPlaintext, AAD12, AAD12CID,
//	MAC12, MAC12CID, Nonce12, AEAD12, CBCEncryptRaw, CBCDecryptRaw, NewCCM (RFC 3610, any M and L).
//
// # DTLS 1.3 key schedule (tls13.go)
//
//	HKDFExtract, HKDFExpand                              RFC 5869
//	HkdfLabel, ExpandLabelPrefix, ExpandLabel            RFC 8446 §7.1 with prefix "dtls13" (RFC 9147 §5.9)
//	DeriveSecret, DeriveSecretHash, HashOf               RFC 8446 §7.1
//	NewSchedule13(h, psk, ecdhe) + SetHelloHash / SetServerFinishedHash / SetClientFinishedHash
//	    -> early, handshake, master secrets; c/s hs traffic; c/s ap traffic 0; exp master; res master
//	NextTrafficSecret                                    RFC 8446 §7.2 "traffic upd"
//	FinishedKey, FinishedVerifyData13                    RFC 8446 §4.4.4
//	Exporter13                                           RFC 8446 §7.5
//	CertificateVerifyInput(client, transcriptHash)       RFC 8446 §4.4.3
//	TrafficKeys13(suite, secret) -> Keys13{Key, IV, SNKey}   RFC 8446 §7.3, RFC 9147 §4.2.3 ("sn")
//	MessageHash13                                        RFC 8446 §4.4.1 synthetic message after HRR
//
// # DTLS 1.3 record protection (record13.go)
//
//	Record13{Type, Epoch, Seq, CID, Seq16, WithLength, Pad, Payload}
//	Seal13(suite, keys, rec) -> header||ciphertext       Open13(suite, keys, data, cidLen, expectedSeq) -> Record13, rest
//	    unified header 001CSLEE | CID | 8/16-bit seq | [length] (RFC 9147 §4); AAD = that header with the
//	    clear sequence number; nonce = write_IV XOR 64-bit record sequence number (RFC 8446 §5.3; the epoch
//	    is not part of it, keys change with the epoch); sequence-number bytes XORed with
//	    AES-ECB(sn_key, ct[0:16]) or ChaCha20(sn_key, counter = ct[0:4], nonce = ct[4:16]) (RFC 9147 §4.2.3).
//	UnifiedHeader{…}.Marshal, ParseUnifiedHeader, Nonce13, SNMask, ReconstructSeq (RFC 9147 §4.2.2)
//
// # Parsers (parse.go)
//
//	ParseRecord12 (13-byte header, + CID for type 25), NextRecord, IsUnifiedHeader
//	ParseHandshake (12-byte DTLS handshake header), HandshakeMessage12, Canonical13 (RFC 9147 §5.2)
//	ParseKeyLogLine, ParseKeyLog, MasterSecretFor ("CLIENT_RANDOM <hex> <hex>")
package refimpl
