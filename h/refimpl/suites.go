package refimpl

import (
	"crypto/sha1" //nolint:gosec // HMAC-SHA1 is what TLS_*_CBC_SHA prescribes
	"crypto/sha256"
	"crypto/sha512"
	"hash"
)

// Kind is the record-protection construction of a cipher suite.
type Kind int

// Record-protection constructions.
const (
	KindGCM    Kind = iota + 1 // AES-GCM: RFC 5288 (TLS 1.2) / RFC 8446 §5.2 (TLS 1.3)
	KindCCM                    // AES-CCM / CCM_8: RFC 6655, RFC 7251 (TLS 1.2 only here)
	KindCBC                    // AES-CBC, MAC-then-encrypt, explicit IV: RFC 5246 §6.2.3.2
	KindChaCha                 // ChaCha20-Poly1305: RFC 7905 (TLS 1.2) / RFC 8446 (TLS 1.3)
)

func (k Kind) String() string {
	switch k {
	case KindGCM:
		return "GCM"
	case KindCCM:
		return "CCM"
	case KindCBC:
		return "CBC"
	case KindChaCha:
		return "CHACHA"
	}

	return "?"
}

// KeyExchange is the TLS 1.2 key-exchange family of a suite (it decides the premaster layout).
type KeyExchange int

// Key-exchange families.
const (
	KxNone     KeyExchange = iota // TLS 1.3 suites
	KxECDHE                       // RFC 8422: premaster = ECDH shared secret
	KxPSK                         // RFC 4279 §2
	KxECDHEPSK                    // RFC 5489 §2
)

// Auth is the TLS 1.2 authentication family of a suite.
type Auth int

// Authentication families.
const (
	AuthNone Auth = iota
	AuthECDSA
	AuthRSA
	AuthPSK
)

// HashID names a hash function.
type HashID int

// Hash functions.
const (
	SHA1 HashID = iota + 1
	SHA256
	SHA384
)

// New returns the hash constructor.
func (h HashID) New() func() hash.Hash {
	switch h {
	case SHA1:
		return sha1.New
	case SHA256:
		return sha256.New
	case SHA384:
		return sha512.New384
	}
	panic("refimpl: unknown hash")
}

// Size is the digest length in bytes.
func (h HashID) Size() int { return h.New()().Size() }

func (h HashID) String() string {
	switch h {
	case SHA1:
		return "SHA1"
	case SHA256:
		return "SHA256"
	case SHA384:
		return "SHA384"
	}

	return "?"
}

// Suite is one row of the cipher-suite table.
//
// For TLS 1.2 suites the key block (RFC 5246 §6.3) is
//
//	client_write_MAC_key[MACLen] server_write_MAC_key[MACLen]
//	client_write_key[KeyLen]     server_write_key[KeyLen]
//	client_write_IV[FixedIVLen]  server_write_IV[FixedIVLen]
//
// For TLS 1.3 suites KeyLen is the traffic key / sn key length, the IV is always 12 bytes and Hash is
// the HKDF / transcript hash.
type Suite struct {
	ID    uint16
	Name  string
	TLS13 bool
	Kind  Kind
	// Hash is the PRF hash (TLS 1.2: P_hash, verify_data, exporter) or the HKDF hash (TLS 1.3).
	Hash HashID
	// MAC is the HMAC hash of a CBC suite (0 for AEAD suites).
	MAC HashID
	// KeyLen is enc_key_length, MACLen is mac_key_length, FixedIVLen is fixed_iv_length (the implicit part
	// of the AEAD nonce taken from the key block; 0 for CBC in TLS 1.2, whose IV is per record).
	KeyLen, MACLen, FixedIVLen int
	// ExplicitLen is the number of bytes carried in front of the ciphertext in every record:
	// 8 (GCM, CCM: nonce_explicit), 16 (CBC: IV), 0 (ChaCha20-Poly1305, all of TLS 1.3).
	ExplicitLen int
	// TagLen is the AEAD tag length (16, or 8 for CCM_8); 0 for CBC.
	TagLen int
	Kx     KeyExchange
	Auth   Auth
}

// Suites is the table of every cipher suite pion/dtls lists (internal/ciphersuite/ciphersuite.go),
// with the parameters taken from the defining RFCs (5246 App. C, 5288, 5289, 5487, 6655, 7251, 7905,
// 8442, 8446 App. B.4).
var Suites = []Suite{
	// RFC 7251
	{ID: 0xc0ac, Name: "TLS_ECDHE_ECDSA_WITH_AES_128_CCM", Kind: KindCCM, Hash: SHA256, KeyLen: 16, FixedIVLen: 4, ExplicitLen: 8, TagLen: 16, Kx: KxECDHE, Auth: AuthECDSA},
	{ID: 0xc0ae, Name: "TLS_ECDHE_ECDSA_WITH_AES_128_CCM_8", Kind: KindCCM, Hash: SHA256, KeyLen: 16, FixedIVLen: 4, ExplicitLen: 8, TagLen: 8, Kx: KxECDHE, Auth: AuthECDSA},
	// RFC 5289
	{ID: 0xc02b, Name: "TLS_ECDHE_ECDSA_WITH_AES_128_GCM_SHA256", Kind: KindGCM, Hash: SHA256, KeyLen: 16, FixedIVLen: 4, ExplicitLen: 8, TagLen: 16, Kx: KxECDHE, Auth: AuthECDSA},
	{ID: 0xc02f, Name: "TLS_ECDHE_RSA_WITH_AES_128_GCM_SHA256", Kind: KindGCM, Hash: SHA256, KeyLen: 16, FixedIVLen: 4, ExplicitLen: 8, TagLen: 16, Kx: KxECDHE, Auth: AuthRSA},
	{ID: 0xc02c, Name: "TLS_ECDHE_ECDSA_WITH_AES_256_GCM_SHA384", Kind: KindGCM, Hash: SHA384, KeyLen: 32, FixedIVLen: 4, ExplicitLen: 8, TagLen: 16, Kx: KxECDHE, Auth: AuthECDSA},
	{ID: 0xc030, Name: "TLS_ECDHE_RSA_WITH_AES_256_GCM_SHA384", Kind: KindGCM, Hash: SHA384, KeyLen: 32, FixedIVLen: 4, ExplicitLen: 8, TagLen: 16, Kx: KxECDHE, Auth: AuthRSA},
	// RFC 8422 (suites of RFC 4492): TLS 1.2 uses the SHA-256 PRF for them, HMAC-SHA1 as record MAC
	{ID: 0xc00a, Name: "TLS_ECDHE_ECDSA_WITH_AES_256_CBC_SHA", Kind: KindCBC, Hash: SHA256, MAC: SHA1, KeyLen: 32, MACLen: 20, ExplicitLen: 16, Kx: KxECDHE, Auth: AuthECDSA},
	{ID: 0xc014, Name: "TLS_ECDHE_RSA_WITH_AES_256_CBC_SHA", Kind: KindCBC, Hash: SHA256, MAC: SHA1, KeyLen: 32, MACLen: 20, ExplicitLen: 16, Kx: KxECDHE, Auth: AuthRSA},
	// RFC 6655
	{ID: 0xc0a4, Name: "TLS_PSK_WITH_AES_128_CCM", Kind: KindCCM, Hash: SHA256, KeyLen: 16, FixedIVLen: 4, ExplicitLen: 8, TagLen: 16, Kx: KxPSK, Auth: AuthPSK},
	{ID: 0xc0a8, Name: "TLS_PSK_WITH_AES_128_CCM_8", Kind: KindCCM, Hash: SHA256, KeyLen: 16, FixedIVLen: 4, ExplicitLen: 8, TagLen: 8, Kx: KxPSK, Auth: AuthPSK},
	{ID: 0xc0a9, Name: "TLS_PSK_WITH_AES_256_CCM_8", Kind: KindCCM, Hash: SHA256, KeyLen: 32, FixedIVLen: 4, ExplicitLen: 8, TagLen: 8, Kx: KxPSK, Auth: AuthPSK},
	// RFC 5487
	{ID: 0x00a8, Name: "TLS_PSK_WITH_AES_128_GCM_SHA256", Kind: KindGCM, Hash: SHA256, KeyLen: 16, FixedIVLen: 4, ExplicitLen: 8, TagLen: 16, Kx: KxPSK, Auth: AuthPSK},
	{ID: 0x00ae, Name: "TLS_PSK_WITH_AES_128_CBC_SHA256", Kind: KindCBC, Hash: SHA256, MAC: SHA256, KeyLen: 16, MACLen: 32, ExplicitLen: 16, Kx: KxPSK, Auth: AuthPSK},
	// RFC 5489
	{ID: 0xc037, Name: "TLS_ECDHE_PSK_WITH_AES_128_CBC_SHA256", Kind: KindCBC, Hash: SHA256, MAC: SHA256, KeyLen: 16, MACLen: 32, ExplicitLen: 16, Kx: KxECDHEPSK, Auth: AuthPSK},
	// RFC 7905
	{ID: 0xcca9, Name: "TLS_ECDHE_ECDSA_WITH_CHACHA20_POLY1305_SHA256", Kind: KindChaCha, Hash: SHA256, KeyLen: 32, FixedIVLen: 12, TagLen: 16, Kx: KxECDHE, Auth: AuthECDSA},
	{ID: 0xcca8, Name: "TLS_ECDHE_RSA_WITH_CHACHA20_POLY1305_SHA256", Kind: KindChaCha, Hash: SHA256, KeyLen: 32, FixedIVLen: 12, TagLen: 16, Kx: KxECDHE, Auth: AuthRSA},
	{ID: 0xccab, Name: "TLS_PSK_WITH_CHACHA20_POLY1305_SHA256", Kind: KindChaCha, Hash: SHA256, KeyLen: 32, FixedIVLen: 12, TagLen: 16, Kx: KxPSK, Auth: AuthPSK},
	// RFC 8446 App. B.4
	{ID: 0x1301, Name: "TLS_AES_128_GCM_SHA256", TLS13: true, Kind: KindGCM, Hash: SHA256, KeyLen: 16, FixedIVLen: 12, TagLen: 16},
	{ID: 0x1302, Name: "TLS_AES_256_GCM_SHA384", TLS13: true, Kind: KindGCM, Hash: SHA384, KeyLen: 32, FixedIVLen: 12, TagLen: 16},
	{ID: 0x1303, Name: "TLS_CHACHA20_POLY1305_SHA256", TLS13: true, Kind: KindChaCha, Hash: SHA256, KeyLen: 32, FixedIVLen: 12, TagLen: 16},
}

// SuiteByID returns the table row for a cipher-suite code point.
func SuiteByID(id uint16) (*Suite, bool) {
	for i := range Suites {
		if Suites[i].ID == id {
			return &Suites[i], true
		}
	}

	return nil, false
}

// Suites12 returns the TLS 1.2 rows, Suites13 the TLS 1.3 rows.
func Suites12() []*Suite { return filterSuites(false) }

// Suites13 returns the TLS 1.3 rows.
func Suites13() []*Suite { return filterSuites(true) }

func filterSuites(tls13 bool) []*Suite {
	var out []*Suite
	for i := range Suites {
		if Suites[i].TLS13 == tls13 {
			out = append(out, &Suites[i])
		}
	}

	return out
}
