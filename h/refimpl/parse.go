package refimpl

import (
	"bufio"
	"encoding/binary"
	"encoding/hex"
	"errors"
	"io"
	"strings"
)

// RecordHeader12 is the 13-byte DTLSPlaintext / DTLSCiphertext header (RFC 6347 §4.1), with the
// connection ID of RFC 9146 §4 when Type is tls12_cid.
type RecordHeader12 struct {
	Type    uint8
	Version [2]byte
	Epoch   uint16
	Seq     uint64
	CID     []byte
	Length  int
}

// ParseRecord12 splits the first record off data. cidLen is the length of the CID carried by
// tls12_cid records. body is the record payload (Length bytes), rest what follows it in the datagram.
func ParseRecord12(data []byte, cidLen int) (h RecordHeader12, body, rest []byte, err error) {
	if len(data) < 13 {
		return h, nil, nil, errors.New("refimpl: short record header")
	}
	h.Type = data[0]
	h.Version = [2]byte{data[1], data[2]}
	h.Epoch = binary.BigEndian.Uint16(data[3:])
	h.Seq = binary.BigEndian.Uint64(data[3:]) & 0xffffffffffff
	p := 11
	if h.Type == ContentTypeCID {
		if len(data) < 13+cidLen {
			return h, nil, nil, errors.New("refimpl: short CID record header")
		}
		h.CID = data[p : p+cidLen]
		p += cidLen
	}
	h.Length = int(binary.BigEndian.Uint16(data[p:]))
	p += 2
	if len(data) < p+h.Length {
		return h, nil, nil, errors.New("refimpl: record truncated")
	}

	return h, data[p : p+h.Length], data[p+h.Length:], nil
}

// IsUnifiedHeader reports whether the first byte of a record is a DTLS 1.3 unified header (001CSLEE).
func IsUnifiedHeader(b byte) bool { return b&0xe0 == 0x20 }

// NextRecord splits the first record off a datagram that may mix DTLS 1.2-style records (plaintext,
// DTLS 1.2 ciphertext, tls12_cid) and DTLS 1.3 unified-header records. cidLen is the CID length used by
// tls12_cid records and by unified headers with the C bit. A unified-header record without a length
// field extends to the end of the datagram.
func NextRecord(data []byte, cidLen int) (record, rest []byte, unified bool, err error) {
	if len(data) == 0 {
		return nil, nil, false, errors.New("refimpl: empty datagram")
	}
	if IsUnifiedHeader(data[0]) {
		u, err := ParseUnifiedHeader(data, cidLen)
		if err != nil {
			return nil, nil, true, err
		}
		end := len(data)
		if u.WithLength {
			end = u.Size + int(u.Length)
			if end > len(data) {
				return nil, nil, true, errors.New("refimpl: record truncated")
			}
		}

		return data[:end], data[end:], true, nil
	}
	_, _, rest, err = ParseRecord12(data, cidLen)
	if err != nil {
		return nil, nil, false, err
	}

	return data[:len(data)-len(rest)], rest, false, nil
}

// HandshakeHeader is the 12-byte DTLS handshake header (RFC 6347 §4.2.2).
type HandshakeHeader struct {
	Type       uint8
	Length     int
	MessageSeq uint16
	FragOffset int
	FragLength int
}

func u24(b []byte) int { return int(b[0])<<16 | int(b[1])<<8 | int(b[2]) }

// ParseHandshake splits the first handshake fragment off data (a handshake record may hold several).
func ParseHandshake(data []byte) (h HandshakeHeader, fragment, rest []byte, err error) {
	if len(data) < 12 {
		return h, nil, nil, errors.New("refimpl: short handshake header")
	}
	h = HandshakeHeader{
		Type: data[0], Length: u24(data[1:]), MessageSeq: binary.BigEndian.Uint16(data[4:]),
		FragOffset: u24(data[6:]), FragLength: u24(data[9:]),
	}
	if len(data) < 12+h.FragLength {
		return h, nil, nil, errors.New("refimpl: handshake fragment truncated")
	}
	if h.FragOffset+h.FragLength > h.Length {
		return h, nil, nil, errors.New("refimpl: handshake fragment exceeds message")
	}

	return h, data[12 : 12+h.FragLength], data[12+h.FragLength:], nil
}

// HandshakeMessage12 builds an unfragmented DTLS handshake message (the form that enters the DTLS 1.2
// Finished hash, RFC 6347 §4.2.6).
func HandshakeMessage12(typ uint8, messageSeq uint16, body []byte) []byte {
	n := len(body)
	l := []byte{byte(n >> 16), byte(n >> 8), byte(n)}

	return cat([]byte{typ}, l, u16(int(messageSeq)), []byte{0, 0, 0}, l, body)
}

// Canonical13 converts an unfragmented DTLS handshake message into the form that enters the DTLS 1.3
// transcript hash: msg_type || uint24 length || body, i.e. without message_seq, fragment_offset and
// fragment_length (RFC 9147 §5.2).
func Canonical13(dtlsMessage []byte) ([]byte, error) {
	h, frag, rest, err := ParseHandshake(dtlsMessage)
	if err != nil {
		return nil, err
	}
	if len(rest) != 0 || h.FragOffset != 0 || h.FragLength != h.Length {
		return nil, errors.New("refimpl: not a single unfragmented handshake message")
	}

	return cat(dtlsMessage[:4], frag), nil
}

// KeyLogEntry is one line of an NSS key log: "<LABEL> <hex client_random> <hex secret>".
type KeyLogEntry struct {
	Label        string
	ClientRandom []byte
	Secret       []byte
}

// ParseKeyLogLine parses one key-log line. Blank lines and comments give ok = false without error.
func ParseKeyLogLine(line string) (e KeyLogEntry, ok bool, err error) {
	line = strings.TrimSpace(line)
	if line == "" || strings.HasPrefix(line, "#") {
		return e, false, nil
	}
	f := strings.Fields(line)
	if len(f) != 3 {
		return e, false, errors.New("refimpl: key log line needs 3 fields")
	}
	e.Label = f[0]
	if e.ClientRandom, err = hex.DecodeString(f[1]); err != nil {
		return e, false, err
	}
	if e.Secret, err = hex.DecodeString(f[2]); err != nil {
		return e, false, err
	}

	return e, true, nil
}

// ParseKeyLog reads a whole key log.
func ParseKeyLog(r io.Reader) ([]KeyLogEntry, error) {
	var out []KeyLogEntry
	sc := bufio.NewScanner(r)
	for sc.Scan() {
		e, ok, err := ParseKeyLogLine(sc.Text())
		if err != nil {
			return nil, err
		}
		if ok {
			out = append(out, e)
		}
	}

	return out, sc.Err()
}

// MasterSecretFor returns the TLS 1.2 master secret logged for clientRandom ("CLIENT_RANDOM" lines).
func MasterSecretFor(entries []KeyLogEntry, clientRandom []byte) ([]byte, bool) {
	for _, e := range entries {
		if e.Label == "CLIENT_RANDOM" && string(e.ClientRandom) == string(clientRandom) {
			return e.Secret, true
		}
	}

	return nil, false
}
