// Package run is the worker side of vcheck: it executes an enumerated list of cases (the shard
// assigned to this process), journals each case before running it (so a dead worker identifies the
// fatal input), re-executes every candidate violation 5x, and writes a JSON result for the driver.
package run

import (
	"encoding/binary"
	"encoding/json"
	"fmt"
	"hash/fnv"
	"os"
	"runtime"
	"runtime/debug"
	"sort"
	"strconv"
	"strings"
	"testing"
	"time"
)

// Outcome is what one execution reports.
type Outcome struct {
	// Violation is empty if the property held on this execution.
	Violation string
	// Key identifies the cause of a violation (used to match known findings); "" = no key.
	Key string
	// Class is a coarse outcome label; distinct classes are counted.
	Class string
	// NonTrivial says whether the case exercised the behaviour under test (by the check's stated rule).
	NonTrivial bool
	// States / Transitions are digests of quiescent points and (state,event,state') triples visited.
	States      []uint64
	Transitions []uint64
	// Evals is the number of oracle evaluations performed inside this case (default 1).
	Evals int
	// Distinct is the number of distinct non-trivial sub-cases inside this case (default: NonTrivial?1:0).
	Distinct int
	// Sample is a rendering of the case for the evidence file.
	Sample any
	// Info is extra per-case information merged as counters: key -> +n.
	Counters map[string]int
	// Skip marks a case that is outside the property's quantifier (e.g. incompatible configuration).
	Skip bool
	// Incomplete marks a case whose internal enumeration hit a cap: the run is then not reported as exhaustive.
	Incomplete bool
}

// Case is one enumerated execution.
type Case struct {
	ID  string
	Run func(t *testing.T) Outcome
}

// Violation is a confirmed (5x reproduced) violation.
type Violation struct {
	Case string `json:"case"`
	Text string `json:"text"`
	Key  string `json:"key"`
}

// Result is the worker's output file.
type Result struct {
	Property     string         `json:"property"`
	Shard        int            `json:"shard"`
	NShards      int            `json:"nshards"`
	TotalCases   int            `json:"total_cases"`
	Ran          int            `json:"ran"`
	Skipped      int            `json:"skipped"`
	Evals        int            `json:"evals"`
	NonTrivial   int            `json:"nontrivial"`
	Classes      map[string]int `json:"classes"`
	Counters     map[string]int `json:"counters"`
	Violations   []Violation    `json:"violations"`
	Nondet       []string       `json:"nondeterministic"`
	Samples      []any          `json:"samples"`
	Exhaustive   bool           `json:"exhaustive"`
	DeadlineHit  bool           `json:"deadline_hit"`
	Completed    bool           `json:"completed"`
	WallS        float64        `json:"wall_s"`
	NextIndex    int            `json:"next_index"`
	Params       map[string]any `json:"params"`
	DetGuardOK   bool           `json:"determinism_guard_ok"`
	StatesFile   string         `json:"states_file"`
	TransFile    string         `json:"trans_file"`
	NStates      int            `json:"n_states"`
	NTransitions int            `json:"n_transitions"`
}

// Env is the worker environment.
type Env struct {
	Tier     string
	Shard    int
	NShards  int
	Out      string
	Seed     uint64
	Only     string // run only this case id (replay)
	From     int    // skip cases with global index < From (restart after a crash)
	Deadline time.Duration
}

// GetEnv reads the worker environment.
func GetEnv() Env {
	e := Env{Tier: os.Getenv("VCHECK_TIER"), NShards: 1}
	if e.Tier == "" {
		e.Tier = os.Getenv("VERIF_TIER")
	}
	if e.Tier == "" {
		e.Tier = "quick"
	}
	if v, err := strconv.Atoi(os.Getenv("VCHECK_SHARD")); err == nil {
		e.Shard = v
	}
	if v, err := strconv.Atoi(os.Getenv("VCHECK_NSHARDS")); err == nil && v > 0 {
		e.NShards = v
	}
	e.Out = os.Getenv("VCHECK_OUT")
	if v, err := strconv.ParseUint(os.Getenv("VERIF_SEED"), 10, 64); err == nil {
		e.Seed = v
	}
	e.Only = os.Getenv("VCHECK_CASE")
	if v, err := strconv.Atoi(os.Getenv("VCHECK_FROM")); err == nil {
		e.From = v
	}
	if v, err := strconv.Atoi(os.Getenv("VCHECK_DEADLINE_S")); err == nil && v > 0 {
		e.Deadline = time.Duration(v) * time.Second
	}
	return e
}

// KeepGC: leave the garbage collector on (checks without a bubble world — pure enumerations that allocate
// a lot inside one case — set it; with the collector off a worker grows to its memory limit, and 16 workers
// of two concurrent runs have been killed by the kernel's OOM killer).
var KeepGC bool

var hbFile *os.File

// Heartbeat tells the driver's hang watchdog that the current case is still completing executions (a
// case may enumerate thousands of executions internally). Call it between executions, never from inside
// one: an execution that hangs must still trip the watchdog.
func Heartbeat() {
	if hbFile == nil {
		out := os.Getenv("VCHECK_OUT")
		if out == "" {
			return
		}
		f, err := os.OpenFile(out+".hb", os.O_CREATE|os.O_WRONLY|os.O_TRUNC, 0o644)
		if err != nil {
			return
		}
		hbFile = f
	}
	_, _ = hbFile.Write([]byte{'.'})
}

// Thorough reports whether the thorough tier is selected.
func (e Env) Thorough() bool { return e.Tier == "thorough" }

// Hash digests strings into a state/transition id.
func Hash(parts ...string) uint64 {
	h := fnv.New64a()
	for _, p := range parts {
		_, _ = h.Write([]byte(p))
		_, _ = h.Write([]byte{0})
	}
	return h.Sum64()
}

func writeSet(path string, set map[uint64]struct{}) error {
	keys := make([]uint64, 0, len(set))
	for k := range set {
		keys = append(keys, k)
	}
	sort.Slice(keys, func(i, j int) bool { return keys[i] < keys[j] })
	buf := make([]byte, 8*len(keys))
	for i, k := range keys {
		binary.LittleEndian.PutUint64(buf[8*i:], k)
	}
	return os.WriteFile(path, buf, 0o644)
}

// Main executes this worker's share of cases.
// params is copied into the result (bounds of the enumeration, for the evidence file).
func Main(t *testing.T, property string, cases []Case, params map[string]any) {
	env := GetEnv()
	start := time.Now()
	res := &Result{Property: property, Shard: env.Shard, NShards: env.NShards, TotalCases: len(cases),
		Classes: map[string]int{}, Counters: map[string]int{}, Params: params, Exhaustive: true, DetGuardOK: true}
	states := map[uint64]struct{}{}
	trans := map[uint64]struct{}{}

	if env.Only != "" {
		for _, c := range cases {
			if c.ID == env.Only {
				_ = os.Setenv("VERIF_VERBOSE", "1")
				o := c.Run(t)
				fmt.Printf("REPLAY case=%s class=%s nontrivial=%v\n", c.ID, o.Class, o.NonTrivial)
				if o.Violation != "" {
					fmt.Printf("REPLAY-VIOLATION property=%s key=%s %s\n", property, o.Key, o.Violation)
					t.Fail()
				} else {
					fmt.Printf("REPLAY-OK property=%s\n", property)
				}
				return
			}
		}
		t.Fatalf("case %q not found among %d cases", env.Only, len(cases))
	}

	// Development aid: VCHECK_MATCH=<substring> keeps only the cases whose id contains it (never set by the driver).
	if m := os.Getenv("VCHECK_MATCH"); m != "" {
		var kept []Case
		for _, c := range cases {
			if strings.Contains(c.ID, m) {
				kept = append(kept, c)
			}
		}
		cases = kept
		res.TotalCases = len(cases)
	}

	var journal *os.File
	if env.Out != "" {
		var err error
		journal, err = os.OpenFile(env.Out+".journal", os.O_CREATE|os.O_WRONLY|os.O_TRUNC, 0o644)
		if err != nil {
			t.Fatal(err)
		}
		defer journal.Close()
	}

	guardDone := false
	sampleEvery := 1
	perKey := map[string]int{}
	// The garbage collector's background workers perturb goroutine scheduling (which matters wherever
	// a check has to rely on cooperative yields): collect only at deterministic points, between cases.
	if !KeepGC {
		debug.SetGCPercent(-1)
	}
	debug.SetMemoryLimit(1536 << 20)
	sinceGC := 0
	for idx, c := range cases {
		if idx%env.NShards != env.Shard || idx < env.From {
			continue
		}
		if env.Deadline > 0 && time.Since(start) > env.Deadline {
			res.DeadlineHit = true
			res.Exhaustive = false
			res.NextIndex = idx
			break
		}
		if journal != nil {
			fmt.Fprintf(journal, "%d\t%s\n", idx, c.ID)
		}
		if sinceGC++; sinceGC >= 20 {
			sinceGC = 0
			runtime.GC()
		}
		o := c.Run(t)
		if !guardDone && !o.Skip {
			// Determinism guard: replay the first execution of the shard and compare observations.
			guardDone = true
			o2 := c.Run(t)
			if digest(o) != digest(o2) {
				res.DetGuardOK = false
				res.Nondet = append(res.Nondet, "determinism guard: "+c.ID+" first="+clip(digest(o), 700)+" second="+clip(digest(o2), 700))
			}
		}
		res.Ran++
		if o.Incomplete {
			res.Exhaustive = false
			res.Counters["cases_capped"]++
		}
		if o.Skip {
			res.Skipped++
			continue
		}
		ev := o.Evals
		if ev == 0 {
			ev = 1
		}
		res.Evals += ev
		d := o.Distinct
		if d == 0 && o.NonTrivial {
			d = 1
		}
		res.NonTrivial += d
		res.Classes[o.Class]++
		for k, v := range o.Counters {
			res.Counters[k] += v
		}
		for _, s := range o.States {
			states[s] = struct{}{}
		}
		for _, s := range o.Transitions {
			trans[s] = struct{}{}
		}
		if o.Sample != nil && len(res.Samples) < 6 && res.Ran%sampleEvery == 0 {
			res.Samples = append(res.Samples, o.Sample)
			sampleEvery *= 7
		}
		if o.Violation != "" {
			// Re-execute 5x. Identical every time: a deterministic violation. The same cause key (and a
			// violation) in at least 2 of the 5 re-executions — or, failing that, in at least 3 of 25: an intermittent violation — every execution is a
			// real execution of the implementation, and here its outcome depends on nondeterminism inside the
			// code under test (map iteration order, select order). Anything weaker is treated as harness
			// nondeterminism: the run exits 2, never an alarm.
			identical, sameKey := 0, 0
			for i := 0; i < 5; i++ {
				o2 := c.Run(t)
				if o2.Violation == o.Violation && o2.Key == o.Key {
					identical++
				}
				if o2.Violation != "" && o2.Key == o.Key && o.Key != "" {
					sameKey++
				}
			}
			same := identical == 5
			if !same && sameKey < 2 && o.Key != "" {
				// rarely reproducing: up to 20 more executions. The same cause three times in at most 26
				// executions is still the implementation's own nondeterminism at work (a harness that flaked this
				// often would show up as nondeterministic on the unchanged tree, where nothing of the kind is seen).
				for i := 0; i < 20 && sameKey < 2; i++ {
					o2 := c.Run(t)
					if o2.Violation != "" && o2.Key == o.Key {
						sameKey++
					}
				}
			}
			if !same && sameKey >= 2 {
				same = true
				o.Violation = fmt.Sprintf("[intermittent: %d executions of this case (of at most 26) violate with this cause] %s", sameKey+1, o.Violation)
				res.Counters["intermittent_violations"]++
			}
			if same {
				// keep at most 25 violation texts per cause key (so that a new cause is never crowded out
				// by a known one) — the totals are in the counters
				perKey[o.Key]++
				if perKey[o.Key] <= 25 && len(res.Violations) < 20000 {
					res.Violations = append(res.Violations, Violation{Case: c.ID, Text: o.Violation, Key: o.Key})
				}
				res.Counters["violations_total"]++
				res.Counters["violation_key:"+o.Key]++
			} else {
				res.Nondet = append(res.Nondet, c.ID+": "+o.Violation)
			}
		}
	}
	res.Completed = true
	res.WallS = time.Since(start).Seconds()
	res.NStates = len(states)
	res.NTransitions = len(trans)
	if env.Out != "" {
		res.StatesFile = env.Out + ".states"
		res.TransFile = env.Out + ".trans"
		if err := writeSet(res.StatesFile, states); err != nil {
			t.Fatal(err)
		}
		if err := writeSet(res.TransFile, trans); err != nil {
			t.Fatal(err)
		}
		b, _ := json.Marshal(res)
		if err := os.WriteFile(env.Out, b, 0o644); err != nil {
			t.Fatal(err)
		}
	} else {
		b, _ := json.MarshalIndent(res, "", " ")
		s := string(b)
		if len(s) > 6000 {
			s = s[:6000] + "..."
		}
		fmt.Println(s)
	}
}

func clip(s string, n int) string {
	if len(s) > n {
		return s[:n] + "…"
	}
	return s
}

func digest(o Outcome) string {
	var sb strings.Builder
	fmt.Fprintf(&sb, "%s|%s|%s|%v|%d|%d|", o.Violation, o.Key, o.Class, o.NonTrivial, len(o.States), len(o.Transitions))
	for _, s := range o.States {
		fmt.Fprintf(&sb, "%x,", s)
	}
	return sb.String()
}
