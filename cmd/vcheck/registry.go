package main

var bubbleAssume = []string{
	"testing/synctest fake clock and testing/cryptotest seeded RNG faithfully replace real time and randomness",
	"the in-memory PacketConn stands in for UDP (no partial datagrams, no socket errors)",
	"behaviours needing more deviations than the stated bound are not covered",
}

var registry = map[string]checkSpec{
	"C01": {Rule: "case = (set of <=k configuration deviations with distinct dimensions, delivery fault mask with <=d faults); all sets and masks are enumerated; non-trivial = both endpoints reported a successful handshake, so the agreement oracle (version, suite, exporter x3 labels x2 lengths, CIDs, ALPN, SRTP+MKI, peer chains, key log, data both ways) was evaluated", Assume: bubbleAssume, QuickDL: 600, ThoroDL: 3000},
	"C02": {Rule: "case = (handshake variant, fault mask); all masks with <=k faults over the first N datagrams per direction are enumerated; non-trivial = every fault of the mask actually fired on an emitted datagram (distinct masks that fire are distinct executions)", Assume: bubbleAssume, QuickDL: 240, ThoroDL: 3000},
}
