package main

var bubbleAssume = []string{
	"testing/synctest fake clock and testing/cryptotest seeded RNG faithfully replace real time and randomness",
	"the in-memory PacketConn stands in for UDP (no partial datagrams, no socket errors)",
	"behaviours needing more deviations than the stated bound are not covered",
}

var registry = map[string]checkSpec{
	"C02": {Rule: "case = (handshake variant, fault mask); all masks with <=k faults over the first N datagrams per direction are enumerated; non-trivial = every fault of the mask actually fired on an emitted datagram (distinct masks that fire are distinct executions)", Assume: bubbleAssume, QuickDL: 240, ThoroDL: 3000},
}
