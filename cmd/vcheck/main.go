// vcheck is the driver of the verification checks (DESIGN.md §2.1 "Sharding", §8).
//
//	vcheck run <property> [--tier quick|thorough]   rebuild the worker from /repo's working tree, run all shards,
//	                                                merge results, write /verif/evidence/<id>.json
//	vcheck replay <path>                            re-execute one recorded case verbosely
package main

import (
	"bufio"
	"bytes"
	"crypto/sha256"
	"encoding/binary"
	"encoding/hex"
	"encoding/json"
	"fmt"
	"os"
	"os/exec"
	"path/filepath"
	"runtime"
	"sort"
	"strconv"
	"strings"
	"sync"
	"syscall"
	"time"
)

const (
	verifDir = "/verif"
	hDir     = "/verif/h"
	buildDir = "/verif/.build"
)

type violation struct {
	Case string `json:"case"`
	Text string `json:"text"`
	Key  string `json:"key"`
	part part
}

// part is one worker binary of a check: the main test of the property, or an additional layer
// (e.g. the E2 interleaving exploration, built with the shim overlay).
type part struct {
	Pkg     string
	Test    string
	Overlay bool   // build with the E2 shim overlay (e2rewrite) and tag e2
	Tiers   string // "" = both tiers, else "quick" or "thorough"
	// Race marks the auxiliary free-running pass: the same scenario bodies built with -race and run on
	// several Ps. It is NOT part of the model-checking claim (a different technique); only data-race reports
	// of the race detector are taken from it, its own oracle results are ignored.
	Race bool
}

type result struct {
	Property    string         `json:"property"`
	Shard       int            `json:"shard"`
	TotalCases  int            `json:"total_cases"`
	Ran         int            `json:"ran"`
	Skipped     int            `json:"skipped"`
	Evals       int            `json:"evals"`
	NonTrivial  int            `json:"nontrivial"`
	Classes     map[string]int `json:"classes"`
	Counters    map[string]int `json:"counters"`
	Violations  []violation    `json:"violations"`
	Nondet      []string       `json:"nondeterministic"`
	Samples     []any          `json:"samples"`
	Exhaustive  bool           `json:"exhaustive"`
	DeadlineHit bool           `json:"deadline_hit"`
	Completed   bool           `json:"completed"`
	WallS       float64        `json:"wall_s"`
	NextIndex   int            `json:"next_index"`
	Params      map[string]any `json:"params"`
	DetGuardOK  bool           `json:"determinism_guard_ok"`
	StatesFile  string         `json:"states_file"`
	TransFile   string         `json:"trans_file"`
	test        string
}

// checkSpec is the static registry: property -> test function, level, timeouts.
type checkSpec struct {
	Test    string
	Level   string // evidence level
	Rule    string
	QuickDL int // worker-internal deadline seconds (0 = none)
	ThoroDL int
	Pkg     string // package dir under /verif/h (default ./checks)
	Assume  []string
	NoShard bool
	Also    []part
}

func goEnv() []string {
	env := os.Environ()
	env = append(env, "GOTOOLCHAIN=local", "GOFLAGS=-mod=mod", "GOPROXY=off", "GONOSUMDB=*", "GONOSUMCHECK=1", "GOFLAGS=-mod=mod")
	return env
}

func goBin() string {
	if p, err := exec.LookPath("go1.26.8"); err == nil {
		return p
	}
	return "/opt/veriftools/go1.26.8/bin/go"
}

func buildWorker(pkg string) (string, error) { return buildWorkerX(pkg, false) }

func buildWorkerX(pkg string, overlay bool) (string, error) { return buildWorkerY(pkg, overlay, false) }

func buildWorkerY(pkg string, overlay, race bool) (string, error) {
	if err := os.MkdirAll(buildDir, 0o755); err != nil {
		return "", err
	}
	// go.sum must track /repo's
	if b, err := os.ReadFile("/repo/go.sum"); err == nil {
		_ = os.WriteFile(filepath.Join(hDir, "go.sum"), b, 0o644)
	}
	name := strings.ReplaceAll(strings.Trim(pkg, "./"), "/", "_")
	out := filepath.Join(buildDir, name+".test")
	args := []string{"test", "-c", "-tags", "verif", "-vet=off", "-o", out}
	repoRoot := "/repo"
	if alt := os.Getenv("VCHECK_REPO"); alt != "" {
		repoRoot = alt
	}
	if overlay {
		// E2 layer: rewrite the current tree's sync / sync/atomic imports to the scheduler-aware shims
		ovDir := filepath.Join(buildDir, "e2ov")
		rw := exec.Command(goBin(), "run", ".", repoRoot, filepath.Join(hDir, "e2shim"), ovDir)
		rw.Dir = filepath.Join(verifDir, "cmd", "e2rewrite")
		rw.Env = goEnv()
		if b, err := rw.CombinedOutput(); err != nil {
			return "", fmt.Errorf("e2rewrite failed: %v\n%s", err, b)
		}
		args = []string{"test", "-c", "-tags", "verif e2", "-vet=off", "-overlay", filepath.Join(ovDir, "overlay.json"), "-o", out}
	}
	if alt := os.Getenv("VCHECK_REPO"); alt != "" && alt != "/repo" {
		// Evaluate another checkout of pion/dtls (e.g. a scratch worktree holding a seeded change) without
		// touching /repo: same harness, alternative module file whose replace directive points there.
		// Registered checks never set this; evidence must come from /repo.
		mod, err := os.ReadFile(filepath.Join(hDir, "go.mod"))
		if err != nil {
			return "", err
		}
		altMod := filepath.Join(buildDir, "alt.go.mod")
		if err := os.WriteFile(altMod, []byte(strings.ReplaceAll(string(mod), "=> /repo", "=> "+alt)), 0o644); err != nil {
			return "", err
		}
		if b, err := os.ReadFile(filepath.Join(alt, "go.sum")); err == nil {
			_ = os.WriteFile(filepath.Join(buildDir, "alt.go.sum"), b, 0o644)
		}
		out = filepath.Join(buildDir, name+".alt.test")
		args = append(args[:len(args)-1], out, "-modfile="+altMod)
	}
	if race {
		out = strings.TrimSuffix(out, ".test") + ".race.test"
		for i := range args {
			if args[i] == "-o" {
				args[i+1] = out
			}
		}
		args = append(args, "-race")
	}
	args = append(args, pkg)
	cmd := exec.Command(goBin(), args...)
	cmd.Dir = hDir
	cmd.Env = goEnv()
	var buf bytes.Buffer
	cmd.Stdout, cmd.Stderr = &buf, &buf
	if err := cmd.Run(); err != nil {
		return "", fmt.Errorf("build failed: %v\n%s", err, buf.String())
	}
	return out, nil
}

func readSet(path string, into map[uint64]struct{}) {
	b, err := os.ReadFile(path)
	if err != nil {
		return
	}
	for i := 0; i+8 <= len(b); i += 8 {
		into[binary.LittleEndian.Uint64(b[i:])] = struct{}{}
	}
}

type knownFindings struct {
	findings map[string]string // "C02|key" -> description
	fixed    []string
}

// match finds the finding whose key equals k, or whose key pattern (with '*' wildcards) matches k.
func (k knownFindings) match(prop, key string) (string, bool) {
	key = strings.ReplaceAll(key, " ", "_") // keys in known_findings.txt contain no spaces
	if _, ok := k.findings[prop+"|"+key]; ok {
		return key, true
	}
	pats := make([]string, 0)
	for pk := range k.findings {
		if strings.HasPrefix(pk, prop+"|") && strings.Contains(pk, "*") {
			pats = append(pats, strings.TrimPrefix(pk, prop+"|"))
		}
	}
	sort.Strings(pats)
	for _, p := range pats {
		if globMatch(p, key) {
			return p, true
		}
	}
	return "", false
}

// globMatch matches s against pattern p where '*' matches any (possibly empty) substring.
func globMatch(p, s string) bool {
	parts := strings.Split(p, "*")
	if len(parts) == 1 {
		return p == s
	}
	if !strings.HasPrefix(s, parts[0]) {
		return false
	}
	s = s[len(parts[0]):]
	for i := 1; i < len(parts)-1; i++ {
		j := strings.Index(s, parts[i])
		if j < 0 {
			return false
		}
		s = s[j+len(parts[i]):]
	}
	return strings.HasSuffix(s, parts[len(parts)-1])
}

func loadKnown() knownFindings {
	k := knownFindings{findings: map[string]string{}}
	f, err := os.Open(filepath.Join(verifDir, "known_findings.txt"))
	if err != nil {
		return k
	}
	defer f.Close()
	sc := bufio.NewScanner(f)
	for sc.Scan() {
		line := strings.TrimSpace(sc.Text())
		if line == "" || strings.HasPrefix(line, "#") {
			continue
		}
		if strings.HasPrefix(line, "fixed:") {
			k.fixed = append(k.fixed, line)
			continue
		}
		if strings.HasPrefix(line, "finding:") {
			var prop, key string
			rest := strings.Fields(strings.TrimPrefix(line, "finding:"))
			var desc []string
			for _, w := range rest {
				switch {
				case strings.HasPrefix(w, "property=") && prop == "":
					prop = strings.TrimPrefix(w, "property=")
				case strings.HasPrefix(w, "key=") && key == "":
					key = strings.TrimPrefix(w, "key=")
				default:
					desc = append(desc, w)
				}
			}
			if prop != "" && key != "" {
				k.findings[prop+"|"+key] = strings.Join(desc, " ")
			}
		}
	}
	return k
}

func main() {
	if v, err := strconv.Atoi(os.Getenv("VCHECK_STALL_S")); err == nil && v > 0 {
		stallLimit = time.Duration(v) * time.Second
	}
	if len(os.Args) < 3 {
		fmt.Fprintln(os.Stderr, "usage: vcheck run <property> [--tier quick|thorough] | vcheck replay <path>")
		os.Exit(2)
	}
	switch os.Args[1] {
	case "run":
		tier := os.Getenv("VERIF_TIER")
		if tier == "" {
			tier = "quick"
		}
		for i := 3; i < len(os.Args); i++ {
			if os.Args[i] == "--tier" && i+1 < len(os.Args) {
				tier = os.Args[i+1]
			}
		}
		os.Exit(runCheck(os.Args[2], tier))
	case "replay":
		os.Exit(replay(os.Args[2]))
	default:
		fmt.Fprintln(os.Stderr, "unknown command")
		os.Exit(2)
	}
}

func specFor(prop string) (checkSpec, bool) {
	s, ok := registry[prop]
	if !ok {
		return s, false
	}
	if s.Test == "" {
		s.Test = "Test" + prop
	}
	if s.Pkg == "" {
		s.Pkg = "./checks"
	}
	if s.Level == "" {
		s.Level = "model_checking"
	}
	return s, true
}

type workerRun struct {
	shard   int
	out     string
	stderr  string
	exit    error
	stalled bool
}

var raceMode bool

func runWorker(bin, test, tier string, shard, nshards, from, deadline int, seed string, tag string) workerRun {
	out := filepath.Join(buildDir, "out", fmt.Sprintf("%s.%s.%d.json", test, tag, shard))
	_ = os.MkdirAll(filepath.Dir(out), 0o755)
	_ = os.Remove(out)
	cmd := exec.Command(bin, "-test.run", "^"+test+"$", "-test.timeout", "0", "-test.count", "1")
	cmd.Dir = buildDir
	env := append(os.Environ(), "VCHECK_TIER="+tier, "VCHECK_SHARD="+strconv.Itoa(shard), "VCHECK_NSHARDS="+strconv.Itoa(nshards),
		"VCHECK_OUT="+out, "VCHECK_FROM="+strconv.Itoa(from), "GOMAXPROCS=1", "GODEBUG=asyncpreemptoff=1", "VERIF_SEED="+seed)
	if deadline > 0 {
		env = append(env, "VCHECK_DEADLINE_S="+strconv.Itoa(deadline))
	}
	if raceMode {
		env = append(env, "GOMAXPROCS=8", "GODEBUG=", "VCHECK_DEADLINE_S=120")
	}
	cmd.Env = env
	var buf bytes.Buffer
	cmd.Stdout, cmd.Stderr = &buf, &buf
	_ = os.Remove(out + ".journal")
	_ = os.Remove(out + ".hb")
	err := cmd.Start()
	stalled := false
	if err == nil {
		// Watchdog: a case that makes no progress for stallLimit (the journal is written before every case)
		// is a hang — e.g. a library goroutine spinning forever holds up the whole bubble. Kill the worker;
		// the journal names the case.
		done := make(chan error, 1)
		go func() { done <- cmd.Wait() }()
		tick := time.NewTicker(2 * time.Second)
		defer tick.Stop()
		last := time.Now()
		var lastSize, lastHB int64 = -1, -1
	loop:
		for {
			select {
			case err = <-done:
				break loop
			case <-tick.C:
				if fi, e := os.Stat(out + ".journal"); e == nil && fi.Size() != lastSize {
					lastSize, last = fi.Size(), time.Now()
				}
				// a case that enumerates many executions internally reports completed executions here
				if fi, e := os.Stat(out + ".hb"); e == nil && fi.Size() != lastHB {
					lastHB, last = fi.Size(), time.Now()
				}
				if time.Since(last) > stallLimit {
					stalled = true
					_ = cmd.Process.Signal(syscall.SIGQUIT)
					select {
					case err = <-done:
					case <-time.After(5 * time.Second):
						_ = cmd.Process.Kill()
						err = <-done
					}
					break loop
				}
			}
		}
	}
	s := buf.String()
	if len(s) > 6000 {
		s = s[:2000] + "\n...\n" + s[len(s)-4000:]
	}
	return workerRun{shard: shard, out: out, stderr: s, exit: err, stalled: stalled}
}

// stallLimit is how long one case may run without the worker moving on to the next one.
var stallLimit = 240 * time.Second

func lastJournal(out string) (int, string, bool) {
	b, err := os.ReadFile(out + ".journal")
	if err != nil {
		return 0, "", false
	}
	lines := strings.Split(strings.TrimRight(string(b), "\n"), "\n")
	if len(lines) == 0 || lines[len(lines)-1] == "" {
		return 0, "", false
	}
	parts := strings.SplitN(lines[len(lines)-1], "\t", 2)
	if len(parts) != 2 {
		return 0, "", false
	}
	idx, err := strconv.Atoi(parts[0])
	if err != nil {
		return 0, "", false
	}
	return idx, parts[1], true
}

func runCheck(prop, tier string) int {
	start := time.Now()
	spec, ok := specFor(prop)
	if !ok {
		fmt.Fprintf(os.Stderr, "unknown property %s\n", prop)
		return 2
	}
	seed := os.Getenv("VERIF_SEED")
	if _, err := strconv.ParseUint(seed, 10, 64); err != nil {
		seed = "0"
	}
	parts := []part{{Pkg: spec.Pkg, Test: spec.Test}}
	for _, a := range spec.Also {
		if a.Tiers == "" || a.Tiers == tier {
			parts = append(parts, a)
		}
	}
	nshards := runtime.NumCPU()
	if nshards > 16 {
		nshards = 16
	}
	if spec.NoShard {
		nshards = 1
	}
	deadline := spec.QuickDL
	if tier == "thorough" {
		deadline = spec.ThoroDL
	}
	known := loadKnown()
	var mu sync.Mutex
	var results []result
	var crashes []violation
	harnessErr := []string{}
	shardsCutShort := 0
	slowCases := 0
	racePassRuns := 0
	for _, pt := range parts {
		pt := pt
		if old, _ := filepath.Glob(filepath.Join(buildDir, "out", pt.Test+"."+tier+".*")); len(old) > 0 {
			for _, f := range old {
				_ = os.Remove(f)
			}
		}
		if pt.Race {
			// auxiliary free-running -race pass: only race-detector reports count
			rbin, err := buildWorkerY(pt.Pkg, false, true)
			if err != nil {
				fmt.Fprintln(os.Stderr, "HARNESS-ERROR:", err)
				return 2
			}
			raceMode = true
			var rwg sync.WaitGroup
			const rshards = 4
			for sh := 0; sh < rshards; sh++ {
				rwg.Add(1)
				go func(sh int) {
					defer rwg.Done()
					wr := runWorker(rbin, pt.Test, tier, sh, rshards, 0, 0, seed, "race."+tier)
					mu.Lock()
					defer mu.Unlock()
					racePassRuns++
					if i := strings.Index(wr.stderr, "WARNING: DATA RACE"); i >= 0 {
						rep := wr.stderr[i:]
						if j := strings.Index(rep, "=================="); j > 0 {
							rep = rep[:j]
						}
						_, id, _ := lastJournal(wr.out)
						crashes = append(crashes, violation{part: pt, Case: id, Key: "data-race:" + raceKey(rep), Text: "the race detector reported a data race in the free-running pass (auxiliary, not part of the model-checking claim):\n" + tailLines(rep, 40)})
					}
				}(sh)
			}
			rwg.Wait()
			raceMode = false
			continue
		}
		bin, err := buildWorkerX(pt.Pkg, pt.Overlay)
		if err != nil {
			fmt.Fprintln(os.Stderr, "HARNESS-ERROR:", err)
			return 2
		}
		var wg sync.WaitGroup
		for sh := 0; sh < nshards; sh++ {
			wg.Add(1)
			go func(sh int) {
				defer wg.Done()
				from := 0
				stalls := 0
				for attempt := 0; attempt < 50; attempt++ {
					wr := runWorker(bin, pt.Test, tier, sh, nshards, from, deadline, seed, fmt.Sprintf("%s.a%d", tier, attempt))
					b, rerr := os.ReadFile(wr.out)
					if rerr == nil {
						var r result
						if json.Unmarshal(b, &r) == nil && r.Completed {
							for i := range r.Violations {
								r.Violations[i].part = pt
							}
							r.test = pt.Test
							mu.Lock()
							results = append(results, r)
							mu.Unlock()
							return
						}
					}
					// The worker died. The journal names the case that killed it.
					idx, id, ok := lastJournal(wr.out)
					if !ok {
						mu.Lock()
						harnessErr = append(harnessErr, fmt.Sprintf("shard %d died before running a case: %v\n%s", sh, wr.exit, wr.stderr))
						mu.Unlock()
						return
					}
					if wr.stalled {
						// A wall-clock watchdog must not become an oracle: on a heavily loaded machine a case that
						// needs seconds of CPU can sit for minutes. Re-execute the case alone (6-minute limit): only a
						// case that does not finish there either is a hang.
						if okR, outp := replayCaseT(bin, pt.Test, tier, id, seed, "6m"); okR && strings.Contains(outp, "REPLAY-OK") {
							fmt.Fprintf(os.Stderr, "note: case %q made no progress for %v inside shard %d but completes when re-executed alone (machine load): not a hang\n", id, stallLimit, sh)
							mu.Lock()
							slowCases++
							mu.Unlock()
							from = idx + 1
							continue
						} else if strings.Contains(outp, "REPLAY-VIOLATION") {
							mu.Lock()
							crashes = append(crashes, violation{part: pt, Case: id, Key: "violation-in-a-case-that-stalled-in-its-shard", Text: tailLines(outp, 12)})
							mu.Unlock()
							from = idx + 1
							continue
						}
						mu.Lock()
						crashes = append(crashes, violation{part: pt, Case: id, Key: "hang:" + hangKey(wr.stderr), Text: fmt.Sprintf("the case made no progress for %v (a goroutine spinning, or the bubble never becoming quiescent); goroutine dump of the killed worker:\n%s", stallLimit, tailLines(pionFrames(wr.stderr), 40))})
						mu.Unlock()
						from = idx + 1
						// Every confirmed hang costs the watchdog interval plus its confirmation. The rest of the
						// shard is not run (the run is an alarm already and is marked not exhaustive).
						if stalls++; stalls >= 1 {
							mu.Lock()
							shardsCutShort++
							mu.Unlock()
							return
						}
						continue
					}
					// Confirm it is deterministic: replay that single case twice in fresh processes.
					dies := 0
					var tail string
					for i := 0; i < 2; i++ {
						ok, outp := replayCase(bin, pt.Test, tier, id, seed)
						if !ok && !strings.Contains(outp, "REPLAY-OK") && !strings.Contains(outp, "REPLAY-VIOLATION") {
							dies++
							tail = outp
						}
					}
					mu.Lock()
					if dies == 2 {
						crashes = append(crashes, violation{part: pt, Case: id, Key: crashKey(tail), Text: "worker process died (panic / fatal error) while executing this case:\n" + tailLines(tail, 40)})
					} else {
						harnessErr = append(harnessErr, fmt.Sprintf("shard %d died on case %q but the case does not die on replay (%d/2):\n%s", sh, id, dies, wr.stderr))
					}
					mu.Unlock()
					from = idx + 1
				}
			}(sh)
		}
		wg.Wait()
	} // parts

	if len(harnessErr) > 0 {
		for _, e := range harnessErr {
			fmt.Fprintln(os.Stderr, "HARNESS-ERROR:", e)
		}
		return 2
	}

	// merge
	states := map[uint64]struct{}{}
	trans := map[uint64]struct{}{}
	classes := map[string]int{}
	counters := map[string]int{}
	var samples []any
	var viols []violation
	var nondet []string
	total, ran, skipped, evals, nontrivial := 0, 0, 0, 0, 0
	exhaustive := shardsCutShort == 0
	if slowCases > 0 {
		counters["cases_stalled_in_shard_but_completed_alone"] += slowCases
	}
	var params map[string]any
	totalByTest := map[string]int{}
	for _, r := range results {
		totalByTest[r.test] = r.TotalCases
		ran += r.Ran
		skipped += r.Skipped
		evals += r.Evals
		nontrivial += r.NonTrivial
		for k, v := range r.Classes {
			classes[k] += v
		}
		for k, v := range r.Counters {
			counters[k] += v
		}
		if len(samples) < 8 {
			for _, s := range r.Samples {
				if len(samples) < 8 {
					samples = append(samples, s)
				}
			}
		}
		viols = append(viols, r.Violations...)
		nondet = append(nondet, r.Nondet...)
		if !r.Exhaustive || r.DeadlineHit {
			exhaustive = false
		}
		if !r.DetGuardOK {
			nondet = append(nondet, fmt.Sprintf("shard %d determinism guard failed", r.Shard))
		}
		if params == nil {
			params = map[string]any{}
		}
		if len(parts) == 1 {
			params = r.Params
		} else {
			params[r.test] = r.Params
		}
		readSet(r.StatesFile, states)
		readSet(r.TransFile, trans)
	}
	for _, n := range totalByTest {
		total += n
	}
	viols = append(viols, crashes...)
	if len(nondet) > 0 {
		for _, n := range nondet {
			fmt.Fprintln(os.Stderr, "NONDETERMINISTIC:", n)
		}
		// Candidates that did not reproduce are never reported as violations. If the same run also holds
		// confirmed violations (deterministic, or intermittent with a recurring cause) those are reported:
		// they were reproduced on the implementation; the run is then an alarm, not a broken check.
		confirmed := 0
		for _, v := range viols {
			ok := v.Key != ""
			if ok {
				for _, part := range strings.Split(v.Key, "+") {
					if _, k := known.match(prop, part); !k {
						ok = false
					}
				}
			}
			if !ok {
				confirmed++
			}
		}
		if confirmed == 0 {
			fmt.Fprintln(os.Stderr, "HARNESS-ERROR: nondeterministic executions; this is a broken check, not an alarm")
			return 2
		}
		fmt.Fprintf(os.Stderr, "note: %d candidate(s) above did not reproduce and are not reported; %d confirmed violation(s) follow\n", len(nondet), confirmed)
	}
	sort.Slice(viols, func(i, j int) bool { return viols[i].Case < viols[j].Case })

	// classify violations against known findings
	maskedByKey := map[string]int{}
	var fresh []violation
	for _, v := range viols {
		if v.Key != "" {
			// a case that hits several causes reports them joined with '+': it is known only if every cause is
			parts := strings.Split(v.Key, "+")
			pats := make([]string, 0, len(parts))
			for _, part := range parts {
				if pat, ok := known.match(prop, part); ok {
					pats = append(pats, pat)
				}
			}
			if len(pats) == len(parts) {
				for _, pat := range pats {
					maskedByKey[pat]++
				}
				continue
			}
		}
		fresh = append(fresh, v)
	}
	// exact totals per key come from the workers' counters (texts are capped per key)
	for pat := range maskedByKey {
		total := 0
		for ck, cv := range counters {
			if strings.HasPrefix(ck, "violation_key:") {
				for _, part := range strings.Split(strings.TrimPrefix(ck, "violation_key:"), "+") {
					if p2, ok := known.match(prop, part); ok && p2 == pat {
						total += cv
					}
				}
			}
		}
		if total > maskedByKey[pat] {
			maskedByKey[pat] = total
		}
	}
	keys := make([]string, 0, len(maskedByKey))
	for k := range maskedByKey {
		keys = append(keys, k)
	}
	sort.Strings(keys)
	for _, k := range keys {
		fmt.Printf("KNOWN-FINDING: property=%s %s — %s (%d executions)\n", prop, k, known.findings[prop+"|"+k], maskedByKey[k])
	}
	exit := 0
	_ = os.MkdirAll(filepath.Join(verifDir, "replays"), 0o755)
	for i, v := range fresh {
		h := sha256.Sum256([]byte(v.Case))
		path := filepath.Join(verifDir, "replays", fmt.Sprintf("%s-%s.json", prop, hex.EncodeToString(h[:6])))
		rb, _ := json.MarshalIndent(map[string]any{"property": prop, "test": v.part.Test, "pkg": v.part.Pkg, "overlay": v.part.Overlay, "tier": tier, "seed": seed, "case": v.Case, "key": v.Key, "observed": v.Text}, "", " ")
		_ = os.WriteFile(path, rb, 0o644)
		if i < 25 {
			fmt.Printf("VIOLATION property=%s replay=%s\n", prop, path)
			fmt.Printf("  case: %s\n  %s\n", v.Case, firstN(v.Text, 1200))
		}
		exit = 1
	}
	if len(fresh) > 25 {
		fmt.Printf("... and %d more violations (see %s/replays)\n", len(fresh)-25, verifDir)
	}

	// evidence
	dist := nontrivial
	cov := map[string]any{
		"evaluations":                      evals,
		"distinct_nontrivial":              dist,
		"rule":                             spec.Rule,
		"samples":                          samples,
		"exhaustive":                       exhaustive,
		"cases_enumerated":                 total,
		"cases_run":                        ran,
		"cases_skipped_outside_quantifier": skipped,
		"outcome_classes":                  classes,
		"distinct_outcomes":                len(classes),
		"counters":                         counters,
		"bounds":                           params,
		"masked_by_known_finding":          maskedByKey,
		"shards":                           nshards,
	}
	if racePassRuns > 0 {
		cov["auxiliary_race_pass"] = map[string]any{"worker_processes": racePassRuns, "GOMAXPROCS": 8, "note": "same scenario bodies built with -race and run free (no cooperative scheduling); a different technique, only its data-race reports are used"}
	}
	if len(samples) == 0 {
		cov["samples"] = []any{"(no sample recorded)"}
	}
	if spec.Level == "model_checking" && len(states) > 0 && len(trans) > 0 {
		cov["states"] = len(states)
		cov["transitions"] = len(trans)
		cov["traces_validated_against_impl"] = evals
		cov["explanation"] = "every explored trace is an execution of the real implementation (stateless search over the real code); states/transitions are canonical digests of quiescent points"
	}
	if spec.Level == "model_checking" && len(states) == 0 {
		cov["traces_validated_against_impl"] = evals
		cov["explanation"] = "stateless model checking: every enumerated execution runs on the real implementation; this check does not record canonical state digests, so evaluations/distinct_nontrivial are reported instead of states/transitions"
	}
	seedInt, _ := strconv.ParseInt(seed, 10, 64)
	ev := map[string]any{
		"property_id": prop,
		"tier":        tier,
		"seed":        seedInt,
		"level":       spec.Level,
		"coverage":    cov,
		"assumptions": spec.Assume,
		"wall_s":      time.Since(start).Seconds(),
		"violations":  len(fresh),
	}
	_ = os.MkdirAll(filepath.Join(verifDir, "evidence"), 0o755)
	eb, _ := json.MarshalIndent(ev, "", " ")
	if err := os.WriteFile(filepath.Join(verifDir, "evidence", prop+".json"), eb, 0o644); err != nil {
		fmt.Fprintln(os.Stderr, "HARNESS-ERROR:", err)
		return 2
	}
	fmt.Printf("%s tier=%s cases=%d run=%d evals=%d nontrivial=%d states=%d transitions=%d outcomes=%d known=%d violations=%d exhaustive=%v wall=%.1fs\n",
		prop, tier, total, ran, evals, nontrivial, len(states), len(trans), len(classes), len(viols)-len(fresh), len(fresh), exhaustive, time.Since(start).Seconds())
	return exit
}

// pionFrames keeps the lines of a goroutine dump that mention library code.
func pionFrames(out string) string {
	var keep []string
	for _, l := range strings.Split(out, "\n") {
		if strings.Contains(l, "[running") || (strings.Contains(l, "github.com/pion/dtls/v3") && !strings.Contains(l, "zzverif") && !strings.HasPrefix(strings.TrimSpace(l), "/")) {
			keep = append(keep, strings.TrimSpace(l))
		}
	}
	return strings.Join(keep, "\n")
}

// hangKey names the innermost library function of the running goroutine in a SIGQUIT dump.
func hangKey(out string) string {
	lines := strings.Split(out, "\n")
	for i, l := range lines {
		if strings.Contains(l, "[running") {
			var frames []string
			for _, m := range lines[i+1:] {
				if strings.HasPrefix(m, "goroutine ") {
					break
				}
				if strings.Contains(m, "github.com/pion/dtls/v3") && !strings.Contains(m, "zzverif") && !strings.HasPrefix(strings.TrimSpace(m), "/") {
					f := strings.TrimSpace(m)
					if j := strings.Index(f, "("); j > 0 && !strings.HasPrefix(f, "(") {
						// keep "pkg.(*T).method"
						if k := strings.LastIndex(f, "("); k > 0 {
							f = f[:k]
						}
					}
					frames = append(frames, f)
				}
			}
			if len(frames) > 0 {
				return strings.ReplaceAll(frames[len(frames)-1], " ", "_")
			}
		}
	}
	return "unknown"
}

// raceKey names the first library frame of a race report.
func raceKey(rep string) string {
	for _, l := range strings.Split(rep, "\n") {
		f := strings.TrimSpace(l)
		if strings.HasPrefix(f, "github.com/pion/dtls/v3") && !strings.Contains(f, "zzverif") {
			if j := strings.LastIndex(f, "("); j > 0 {
				f = f[:j]
			}
			return f
		}
	}
	return "harness-or-runtime"
}

func crashKey(out string) string {
	// first "panic:" or "fatal error:" line plus the first pion frame
	var key []string
	lines := strings.Split(out, "\n")
	for i, l := range lines {
		if strings.HasPrefix(l, "panic:") || strings.HasPrefix(l, "fatal error:") {
			key = append(key, strings.TrimSpace(l))
			for _, m := range lines[i:] {
				if strings.Contains(m, "github.com/pion/dtls/v3") && strings.Contains(m, "(") && !strings.Contains(m, "zzverif") {
					f := strings.TrimSpace(m)
					if j := strings.Index(f, "("); j > 0 {
						f = f[:j]
					}
					key = append(key, f)
					break
				}
			}
			break
		}
	}
	if len(key) == 0 {
		return ""
	}
	s := strings.Join(key, "@")
	s = strings.ReplaceAll(s, " ", "_")
	return s
}

func tailLines(s string, n int) string {
	l := strings.Split(strings.TrimRight(s, "\n"), "\n")
	if len(l) > n {
		l = l[:n]
	}
	return strings.Join(l, "\n")
}

func firstN(s string, n int) string {
	if len(s) > n {
		return s[:n] + "…"
	}
	return s
}

func replayCase(bin, test, tier, id, seed string) (bool, string) {
	return replayCaseT(bin, test, tier, id, seed, "10m")
}

func replayCaseT(bin, test, tier, id, seed, limit string) (bool, string) {
	cmd := exec.Command(bin, "-test.run", "^"+test+"$", "-test.timeout", limit, "-test.count", "1", "-test.v")
	cmd.Dir = buildDir
	cmd.Env = append(os.Environ(), "VCHECK_TIER="+tier, "VCHECK_CASE="+id, "VERIF_SEED="+seed, "GOMAXPROCS=1", "GODEBUG=asyncpreemptoff=1")
	var buf bytes.Buffer
	cmd.Stdout, cmd.Stderr = &buf, &buf
	err := cmd.Run()
	return err == nil, buf.String()
}

func replay(path string) int {
	b, err := os.ReadFile(path)
	if err != nil {
		fmt.Fprintln(os.Stderr, err)
		return 2
	}
	var r struct {
		Property, Test, Pkg, Tier, Seed, Case string
		Overlay                               bool
	}
	if err := json.Unmarshal(b, &r); err != nil {
		fmt.Fprintln(os.Stderr, err)
		return 2
	}
	bin, err := buildWorkerX(r.Pkg, r.Overlay)
	if err != nil {
		fmt.Fprintln(os.Stderr, "HARNESS-ERROR:", err)
		return 2
	}
	ok, out := replayCase(bin, r.Test, r.Tier, r.Case, r.Seed)
	fmt.Print(out)
	if strings.Contains(out, "REPLAY-OK") && ok {
		return 0
	}
	fmt.Printf("VIOLATION property=%s replay=%s\n", r.Property, path)
	return 1
}
