module verif/e2rewrite

go 1.23
