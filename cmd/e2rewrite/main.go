// e2rewrite produces the build overlay of the E2 interleaving layer (DESIGN.md §2.2): copies of the
// library's non-test files in which "sync" and "sync/atomic" are imported from the scheduler-aware shim
// packages, plus the shim packages themselves as virtual files of the pion/dtls module.
//
//	e2rewrite <repo root> <shim source dir> <output dir>   → writes <output dir>/overlay.json
package main

import (
	"encoding/json"
	"fmt"
	"go/ast"
	"go/parser"
	"go/printer"
	"go/token"
	"os"
	"path/filepath"
	"strconv"
	"strings"
)

const shimBase = "github.com/pion/dtls/v3/internal/verifshim/"

func main() {
	if len(os.Args) != 4 {
		fmt.Fprintln(os.Stderr, "usage: e2rewrite <repo> <shimdir> <outdir>")
		os.Exit(2)
	}
	repo, shim, out := os.Args[1], os.Args[2], os.Args[3]
	_ = os.RemoveAll(out)
	if err := os.MkdirAll(out, 0o755); err != nil {
		fatal(err)
	}
	replace := map[string]string{}
	n := 0
	err := filepath.Walk(repo, func(path string, info os.FileInfo, err error) error {
		if err != nil {
			return err
		}
		rel, _ := filepath.Rel(repo, path)
		if info.IsDir() {
			if rel == "examples" || rel == "e2e" || strings.HasPrefix(info.Name(), ".") || info.Name() == "testdata" || info.Name() == "_out" {
				return filepath.SkipDir
			}
			return nil
		}
		if !strings.HasSuffix(path, ".go") || strings.HasSuffix(path, "_test.go") {
			return nil
		}
		fset := token.NewFileSet()
		f, err := parser.ParseFile(fset, path, nil, parser.ParseComments)
		if err != nil {
			return err
		}
		changed := false
		for _, imp := range f.Imports {
			p, _ := strconv.Unquote(imp.Path.Value)
			switch p {
			case "sync":
				imp.Path.Value = strconv.Quote(shimBase + "vsync")
				if imp.Name == nil {
					imp.Name = ast.NewIdent("sync")
				}
				changed = true
			case "sync/atomic":
				imp.Path.Value = strconv.Quote(shimBase + "vatomic")
				if imp.Name == nil {
					imp.Name = ast.NewIdent("atomic")
				}
				changed = true
			}
		}
		if !changed {
			return nil
		}
		dst := filepath.Join(out, strings.ReplaceAll(rel, string(filepath.Separator), "__"))
		w, err := os.Create(dst)
		if err != nil {
			return err
		}
		defer w.Close()
		if err := printer.Fprint(w, fset, f); err != nil {
			return err
		}
		replace[path] = dst
		n++
		return nil
	})
	if err != nil {
		fatal(err)
	}
	for _, pkg := range []string{"vsched", "vsync", "vatomic"} {
		replace[filepath.Join(repo, "internal", "verifshim", pkg, pkg+".go")] = filepath.Join(shim, pkg, pkg+".go.txt")
	}
	b, _ := json.MarshalIndent(map[string]any{"Replace": replace}, "", " ")
	if err := os.WriteFile(filepath.Join(out, "overlay.json"), b, 0o644); err != nil {
		fatal(err)
	}
	fmt.Printf("e2rewrite: %d files rewritten\n", n)
}

func fatal(err error) {
	fmt.Fprintln(os.Stderr, "e2rewrite:", err)
	os.Exit(2)
}
