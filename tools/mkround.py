#!/usr/bin/env python3
"""tools/mkround.py <round> <flavour-file> : scratch worktrees /tmp/r<round>/<id> of /repo HEAD and one prompt file per
property under /tmp/r<round>/prompts/ (property text + sites already used by kept seeded changes + the round's flavour).
Nothing of /verif's checks goes into a prompt."""
import json, os, subprocess, sys, glob
rnd, flav = sys.argv[1], open(sys.argv[2]).read()
base = f"/tmp/r{rnd}"; os.makedirs(base + "/prompts", exist_ok=True)
used = {}
for m in glob.glob("/verif/seeded/*/meta.json"):
    j = json.load(open(m)); used.setdefault(j["breaks_property"], []).append(j["file"])
for line in open("/verif/properties.jsonl"):
    p = json.loads(line); pid = p["id"]; wt = f"{base}/{pid}"
    if not os.path.isdir(wt):
        subprocess.run(["git", "-C", "/repo", "worktree", "add", "-q", wt, "HEAD"], check=True)
    os.makedirs(wt + "/_out", exist_ok=True)
    sites = "\n".join(f"- {s}" for s in sorted(set(used.get(pid, []))))
    txt = f"""# Task: a property-breaking change to pion/dtls

You work in `{wt}` — your own scratch git worktree of the Go library pion/dtls (DTLS 1.2 / 1.3 client and server).
Work ONLY inside that directory. Never read or write `/repo` or `/verif` (they do not concern you), never run git
commands that touch other worktrees (no `git worktree`, no `git stash`, no commits). No network is available.
Use the default `go` command as it is (do not set GOSUMDB or GOTOOLCHAIN; `GOFLAGS=-mod=mod` is fine).

## The property

**{p['title']}**

{p['statement']}

Quantifier: {p['quantifier']['text']}

Why the existing tests cannot settle it: {p['why_tests_cant']}

Code anchors: {json.dumps(p.get('anchors'))}

## What to produce

A realistic change to the NON-TEST source of pion/dtls — the kind of slip a maintainer could make in a refactor,
an optimisation or a bug fix — such that:

1. the tree still compiles (`go build ./...`, `go vet` is not required);
2. the WHOLE existing test suite still passes with the change:
   `go test -mod=mod -vet=off -count=1 -timeout 25m ./...` (takes several minutes; some tests are timing-sensitive — if a
   package fails, re-run that package once before concluding; a test that fails on the unchanged tree too does not count);
3. the property above is really broken by it — not merely some other behaviour;
4. a demonstration exists: one or more NEW files named `zz_demo_test.go` (in whatever package directory you need; test
   functions named `TestZZDemo...`) that FAIL with the change and PASS without it, deterministically (run each twice
   both ways). The demonstration should use the library as a user or a network peer could (public API, a pipe or an
   in-memory PacketConn you write, hand-built datagrams); it may use package-internal access when the test lives in that
   package. It must finish within two minutes.

{flav}

Sites and mechanisms ALREADY USED by earlier changes for this property (choose a different site AND a different
mechanism; do not produce a variation of one of these):
{sites}

Do not weaken or delete existing tests. Do not edit test files other than adding `zz_demo_test.go`. Keep the change small
(typically 1–15 lines, at most two sites). The change must not be something ordinary use exposes at once: a plain
handshake over a perfect network followed by a few writes and reads must still work.

## Deliverables (all inside your worktree)

- `_out/patch.diff` — `git diff` of the non-test files only (must apply with `git apply` to a clean checkout of HEAD);
- the untracked `zz_demo_test.go` file(s) left in place in the worktree;
- `_out/NOTES.md` — the change (file, function, before/after), which clause of the property it breaks and why, exactly
  what it needs in order to manifest (configuration, sequence of events, timing, inputs), why the existing suite does not
  notice, and the commands you ran with their results (suite with the change; demo with / without the change).

Leave the change APPLIED in the worktree when you finish. Your final message: a short summary (site, mechanism, what
it needs to manifest, results of the four runs). If after honest effort you cannot find such a change, say so and
explain what you tried.
"""
    open(f"{base}/prompts/{pid}.md", "w").write(txt)
print("ok", base)
