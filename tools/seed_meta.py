#!/usr/bin/env python3
"""Writes /verif/seeded/<id>/meta.json for every confirmed seeded change (table below) from confirm.log."""
import json, os, re
T = {
 "C01-resumed-alpn-not-committed": dict(property="C01", file="internal/flight/flight12/flight3handler.go (flight3Parse)",
   what="the ALPN protocol selected by the server is committed only on the full-handshake path; the resumption branch returns early without it",
   needs="DTLS 1.2, ALPN on both sides, session stores on both sides and an earlier full handshake: the second (abbreviated) association reports ALPN \"\" on the client and the selected protocol on the server",
   caught_by={"C01": "quick: 146 violations, e.g. alpn=both[a]&store=resumed/c0:drop: ALPN differs: client \"\" server \"a\""}),
 "C02-duplicate-fragment-inflates-length": dict(property="C02", file="internal/fragmentbuffer/fragment_buffer.go (pushHandshakeFragments)",
   what="fragmentsLength is increased for every received fragment, also for one whose offset is already buffered, so the completeness test never becomes true again",
   needs="a handshake message spanning more than one datagram (small MTU or DTLS 1.3 ClientHello), an earlier fragment delivered, a later one lost, then the timer retransmission re-delivers the buffered fragment first",
   caught_by={"C02": "quick: 400+ violations, e.g. 12-mtu100/c0:drop,c2:drop", "C12": "quick: 707 violating cases, e.g. rx1/all/L1/c=1/z0 (duplicate fragment)"}),
 "C03-ecdhepsk-premaster-ignores-psk": dict(property="C03", file="pkg/crypto/prf/prf.go (EcdhePSKPreMasterSecret)",
   what="the write cursor skips the PSK field before copying, so the ECDHE_PSK premaster secret depends on the PSK's length only",
   needs="TLS_ECDHE_PSK_WITH_AES_128_CBC_SHA256 explicitly configured and a wrong PSK of exactly the same length as the right one",
   caught_by={"C03": "quick: 122 must-fail/wrong-psk cases established (the wrong PSK of the catalogue has the same length)", "C10": "kd/premaster differs from the reference"}),
 "C05-ccm-adata-bytes-skipped": dict(property="C05", file="pkg/crypto/ccm/ccm.go (tag)",
   what="associated-data bytes 14 and 15 are left out of the CBC-MAC when the associated data is longer than 14 bytes (encrypt and decrypt agree)",
   needs="DTLS 1.2, an AES-CCM / CCM-8 suite and a negotiated connection ID (23+ byte additional data); a forgery confined to the epoch low byte or the top sequence-number byte",
   caught_by={"C05": "quick: 80 violations, e.g. chain/12/ccm/cid4/pad0/len1/c2s/bits after bit/5.7", "C10": "quick: 360 violating cases r12/...CCM/cid*: records differ from the reference"}),
 "C06-dtls13-old-epoch-record-not-marked": dict(property="C06", file="conn.go (protectedReplayMarker)",
   what="a DTLS 1.3 record of an epoch older than the current receive epoch is delivered but its replay slot is never committed (short-circuit before accept())",
   needs="DTLS 1.3, a key update by the sender, an old-epoch application record first arriving after the receiver processed the KeyUpdate, and a duplicate of it",
   caught_by={"C06": "quick: 48 violations in the key-update family, e.g. small/13-direct/c2s/eager/W2/n4/ku2/L5/p=0.0"}),
 "C09-dtls13-handshake-record-wraps-to-zero": dict(property="C09", file="conn.go (processProtectedHandshakePacketTracked)",
   what="the error of nextLocalSequenceNumber is overwritten before it is checked: at counter exhaustion a protected DTLS 1.3 handshake record is sealed and sent with sequence number 0 again",
   needs="DTLS 1.3, the write epoch's counter at 2^48, then a protected handshake record (UpdateKeys, NewSessionTicket, retransmission)",
   caught_by={"C09": "MISSED by the first version (boundary test used Write only); after adding UpdateKeys / retransmission / Close at the boundary and the decoder's wrap fallback: 20 violations, e.g. 13-aes128gcm/cid0/client/wrap-kww: (epoch 3, sequence 0) after 2^48-1"}),
 "C16-closenotify-check-then-act": dict(property="C16", file="conn.go (notify)",
   what="the close_notify-once flag is read up front and set only after the write returned: check-then-act with the whole record write inside the window",
   needs="the peer's close_notify being answered by the read loop while the application calls Close on the same connection (e.g. the reply parked inside WriteTo)",
   caught_by={"C16": "quick: 23 violations, all holdreply cases, e.g. 12-cert/client/p6/holdreply: 2 close_notify records; also E2 (xp scenarios)"}),
}
for name, m in T.items():
    d = f"/verif/seeded/{name}"
    if not os.path.isdir(d):
        continue
    log = open(d + "/confirm.log").read() if os.path.exists(d + "/confirm.log") else ""
    mm = re.search(r"build=(\S+) suite_with_change=(\S+) demo_with_change=(\S+) demo_without_change=(\S+)", log)
    m = dict(m)
    m["breaks_property"] = m.pop("property")
    m["confirmed"] = dict(zip(["build", "existing_suite_with_change", "demo_with_change", "demo_without_change"], mm.groups())) if mm else "pending"
    m["what_was_run"] = ["tools/confirm_mut.sh (fresh scratch worktree of /repo HEAD: git apply patch.diff; go build ./...; go test -mod=mod -vet=off -count=1 ./... ; demo x2 with the change; git apply -R; demo x2 without)",
                         "tools/trymut.sh <worktree> <properties> (VCHECK_REPO: the registered quick checks against the changed checkout, /repo untouched)"]
    m["origin"] = "written by a fresh sub-agent that saw only the property text and a scratch worktree"
    json.dump(m, open(d + "/meta.json", "w"), indent=1)
    print(name, m["confirmed"])
