#!/bin/sh
# tools/mutwt.sh <patch.diff> <dir> : fresh scratch worktree of /repo HEAD (+ uncommitted changes are NOT included) with the patch applied.
git -C /repo worktree remove --force $2 2>/dev/null; rm -rf $2
git -C /repo worktree add -q $2 HEAD || exit 2
git -C $2 apply $1 || { echo "patch does not apply"; exit 1; }
