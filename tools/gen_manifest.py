#!/usr/bin/env python3
"""Regenerates /verif/MANIFEST.json from the table below (keeps it valid at all times)."""
import json, subprocess
E1 = "E1-bubble-world"
E3 = "E3-bounded-enumeration"
NOTE_BUBBLE = ("Trusted: testing/synctest fake clock, testing/cryptotest seeded RNG, harness in-memory PacketConn, the Go runtime; "
               "behaviours needing more deviations than the stated bound are not covered; byte values (keys, randoms, payloads) are outside the alphabet.")
C = {}
# families added after the first version of a check (appended to its level text; DESIGN.md §11.3 and §11.7 give the detail)
EXTRA = {
 "C01": " Later additions: hello-hook configurations and the remaining public options as further configuration dimensions (application-supplied cipher suites, SHA-1 signature schemes with WithInsecureHashes, an application-supplied hello random, the CertificateRequest hook): 86 values over 20 dimensions.",
 "C03": " Later additions: second attempts of refused clients, a forged-ACK peer, pinning callbacks, certificate lists, and two hand-written servers that own no credential (unsigned ECDHE_PSK key exchange; abbreviated handshake that echoes a session_id the client holds no secret for, Finished under a guessable master secret); an early-data family (a Read pending on the honest side from the start, one application-data record sealed with the rogue's keys behind its last flight).",
 "C04": " Later additions: modes on SHA-384 and CBC suites (every PRF hash and record-protection kind at least once), lost-HelloVerifyRequest variants of every first-ClientHello alteration.",
 "C06": " Later additions: resumed receivers, sequence-number encoding boundaries, and a replay-everything adversary after handshakes that needed retransmissions (every single fault and every burst of 2-4 consecutive losses / delays over the first 8 datagrams per direction; the first finisher writes at once; afterwards every datagram of the session is replayed twice).",
 "C07": " Later additions: a public-key observer that tries to open every protected record of sessions with writes and key updates in every listed order under keys derived from empty / all-zero secrets and their traffic-update successors.",
 "C08": " Later additions: a listener part over loopback UDP, short tls12_cid records, replay-window bounds, established victims whose transport refuses the next send once at every injection; a stalled read loop makes the continuation strict whatever the input class.",
 "C13": " Later additions: non-ClientHello datagrams, no-backoff servers, and profiles whose server transport refuses a send with a temporary net.Error whenever an attacker datagram arrives.",
 "C17": " Later additions: DTLS 1.3 with MTU 200, and family F: one send of an endpoint refused by its transport (temporary net.Error) at each of its first 8 / 16 sends, then a reliable network or silence.",
 "C18": " Later additions: hello hooks on live handshakes, and an aliasing shield in the value round trip (every byte-slice field of an enumerated value lives between sentinels with spare capacity: an encoder may neither change it nor write behind it).",
 "C09": " Later additions: the retransmission family on configurations whose flights span several datagrams (MTU 200 on both sides, server MTU 400; DTLS 1.2 and 1.3), no fault and every single fault over the first 14 datagrams per direction.",
 "C11": " Later additions: ClientHello hooks (an extension dropped from the hello that carries the cookie; unconfigured suites offered first, i.e. a wire offer wider than the client's policy), multi-certificate servers, policy changes between connections that share session stores.",
 "C12": " Later additions: a wire-level sender family: complete handshakes of real endpoints (variant x MTU x connection-ID lengths incl. IDs as long as or longer than the MTU x one delivery fault), every handshake fragment on the wire — protected ones after reference decryption — judged against the sender's MTU and for exact tiling of its message.",
 "C14": " Later additions: session stores that do not copy, abandoned connections (every datagram of one direction lost, the applications give up after 0.5 s / 4 s) and the store-integrity clause (a stored secret changes only through a handshake of the same connection); a junk record delivered while the server's store is inside a slow Set call.",
 "C16": " Later additions: after-loss and after-rebind families, back-pressured and failing transports, the first finisher closing at once and mid-handshake Close crossed with every single reordering fault, and authentic alerts (close_notify, fatal, warning; sealed by the reference record layer with the peer's keys) right behind the peer's ChangeCipherSpec + Finished, in a datagram before it, and after completion.",
 "C20": " Later additions: pile-ups, ticket-loss families incl. key updates started while the lost NewSessionTicket is still unacknowledged (gaps -1..3), and one datagram of a side refused by its transport in the data phase.",
}
def chk(pid, engine, cat, text, tech, note=NOTE_BUBBLE):
    text += EXTRA.get(pid, "")
    C[pid] = {"property_id": pid, "quick_cmd": f"./vcheck run {pid} --tier quick", "thorough_cmd": f"./vcheck run {pid} --tier thorough",
              "evidence_file": f"/verif/evidence/{pid}.json", "replay_cmd_template": "./vcheck replay {path}", "engine": engine,
              "level_claimed": {"category": cat, "text": text, "design_ref": f"DESIGN.md §5 {pid}"}, "level_note": note, "technique": tech}

chk("C01", E1, "model_checking",
    "Exhaustive enumeration of all configuration pairs with <=2 non-default dimension values (65 values over 15 dimensions) x all delivery fault masks with <=1 (quick) / <=2 (thorough) faults over the first 6 datagrams per direction, executed on the real endpoints; whenever both sides report success the differential agreement oracle (version, suite, exporter 3 labels x 2 lengths, CIDs, ALPN, SRTP+MKI, peer chains, key-log master secret, one payload each way) is evaluated.",
    "stateless model checking of the implementation: exhaustive configuration-pair x fault-mask enumeration with a differential agreement oracle")
chk("C02", E1, "model_checking",
    "Exhaustive enumeration of all fault masks (<=2 faults over the first 6 (quick) / 8 (thorough) datagrams per direction, 6 fault kinds; thorough adds all 2^12 drop-only masks) x 13 handshake variants on the real client and server over a harness-owned network with exact fake time; oracle: both HandshakeContext return nil within the retransmission-schedule horizon. Four causes are recorded as known findings (DTLS 1.3 HRR loss, DTLS 1.3 late final ACK, two dual-stack defects); everything else alarms.",
    "stateless model checking of the implementation: exhaustive fault-mask enumeration under a deterministic network/clock")
chk("C06", E1, "model_checking",
    "Every arrival sequence with repetitions (length <=5 quick / <=7 thorough over 4-5 captured records) for replay windows 1-4, every edge pattern around the default 64-record window, and a sweep of every window size 1..130 (thorough 1..260), each on a fresh pair of real endpoints (DTLS 1.2 PSK, 1.2+CID, DTLS 1.3, across a 1.3 key update), judged after every arrival against an independent reference sliding window.",
    "stateless model checking of the implementation: exhaustive arrival-sequence enumeration against a reference replay window")
chk("C11", E1, "model_checking",
    "Full product of the coupled negotiation dimensions (version range^2 x suite lists^2 x server credential x curves^2 x EMS^2: 142,884 pairs quick / 1,012,500 thorough) plus all sets of <=2 (3) further deviations on 14 (19) base pairs, each run on the real endpoints and judged against an independent policy model computed from the two configurations and independent decoders of the captured hellos / key exchange / CertificateVerify.",
    "stateless model checking of the implementation: exhaustive configuration-product enumeration against an independent negotiation-policy model")
chk("C13", E1, "model_checking",
    "Real hello-verify server (DTLS 1.2 and 1.3, 6 profiles) driven by every second ClientHello of an attacker alphabet derived from the genuine capture (absent, replayed first hello, every single-bit cookie flip, stale, every truncation, extension, exact cookie with every field-level body alteration, exact) x repetition 1-3 x fake-time gaps; oracle on every emitted byte: only cookie requests / size-bounded alerts until the exact ClientHello arrives, never on a timer.",
    "stateless model checking of the implementation: exhaustive adversarial-input x timing enumeration on the real server")
chk("C14", E1, "model_checking",
    "Every history of <=3 connections over shared session stores x 11 store edits (thorough: ordered pairs) x 12 configurations x all fault masks with <=1 (2) faults over the first 4 datagrams per direction, plus 6 Finished/hello tampering adversaries; oracle from the wire and the public API (abbreviated handshake recognised on the wire; equal secrets, fresh randoms/records/CIDs, session deleted after a fatal alert).",
    "stateless model checking of the implementation: exhaustive connection-history x store-edit x fault-mask enumeration")
chk("C16", E1, "model_checking",
    "Every (variant, side, position, action) with positions = each network delivery of the handshake plus established-idle / after-data, actions = 1-3 concurrent Close callers with pending Handshake/Read/Write, both sides Close, peer Close, plaintext fatal alert, context deadline, read/write deadline, Close while the endpoint is parked inside an emission holding the write lock, application Close while the reply to the peer's close_notify is being emitted; oracle: every call returns with a closed/EOF/deadline error, close_notify at most once (exactly once for an established open session), peer Read sees EOF, and the bubble ends with no goroutine left. The 'free of data races' clause is NOT decided here (separate -race pass, different technique).",
    "stateless model checking of the implementation: exhaustive placement of lifecycle events at quiescent points and emission holds, with a goroutine-leak oracle")

chk("C10", E3, "exploration",
    "Bounded-exhaustive differential enumeration of record protection (all 17 DTLS 1.2 and 3 DTLS 1.3 suites x header layouts without/with CID 1,4,8 x padding x payload lengths x epochs x boundary sequence numbers x content types x both writer roles) and of every key-derivation function (P_hash/PRF, master and extended master secret, key block, verify_data, RFC 5705 exporter, premaster constructions, ValueKeyMessage, DTLS 1.3 Expand-Label/Derive-Secret chain, finished key, traffic keys, update secret, CertificateVerify input, HRR message_hash) against an independent RFC-derived reference: library-sealed opens under the reference, byte equality with forced nonce, reference-sealed opens under the library. Live traffic decoding is done by C05/C07/C09.",
    "bounded-exhaustive enumeration of structural inputs with a differential oracle (independent reference implementation)",
    "Trusted: the reference implementation /verif/h/refimpl (std + x/crypto primitives only, RFC test vectors); byte values are 4 fixed patterns, structural dimensions exhaustive.")
chk("C19", E1, "model_checking",
    "Full product suite class x feature set x exporting side x export point (a,b in 0..3 records per direction) x in-flight mode on real endpoints (serialise, detach silently, resume, 2 records each way, wire-level sequence-number audit), plus every truncation and every byte position x 4 corruptions of 30 (54) serialised states, a catalogue of field-level rewrites, and DTLS 1.3 refusal.",
    "stateless model checking of the implementation: exhaustive export-point x configuration enumeration and exhaustive single-byte corruption of the serialised state")

chk("C03", E1, "model_checking",
    "Finite catalogue version x honest side's policy (client: roots+name / InsecureSkipVerify; server: 5 client-auth policies) x credential type x every single deviation of an otherwise competent rogue peer (realised on a real library endpoint by configuration, a dishonest crypto.Signer or the verif flight-editor hook, Finished recomputed where needed) x all delivery fault masks with <=1 (2) faults; an independent policy table decides whether the honest side may complete; where it may not, it must never report an established connection nor deliver application data; positive controls must complete.",
    "stateless model checking of the implementation: exhaustive enumeration of a finite rogue-peer deviation alphabet x fault masks against an independent policy table")
chk("C17", E1, "model_checking",
    "Every (variant, cut-off endpoint, cut position, network mode after the cut, initial interval in {100 ms, 1 s, 7 s}, backoff on/off, follow-up kind, number of timeouts before it, target) combination on the real endpoints for 10 fake minutes; exact fake-clock oracle: retransmissions at I, 2I, 4I ... capped at 60 s, reset only on new data, cookie requests never on a timer, completed endpoints silent except in reply to a peer retransmission, emission count bounded by timer firings x flight size + c x received.",
    "stateless model checking of the implementation: exhaustive silence / stale-input / storm schedule enumeration with an exact fake-time retransmission-law oracle")

chk("C18", E3, "exploration",
    "Bounded-exhaustive enumeration of every wire codec (legacy/CID/unified record headers, records, every handshake message incl. DTLS 1.3 ones under each key-exchange context, all 29 extension payload types and lists of <=3 extensions per context, all 2^16 alerts, ACK, RRC, inner plaintext) over small per-field domains: value round trip and canonical fixed point; every accepted encoding under every truncation, one-byte extension and single-byte substitution judged against an independent schema-driven framing reference (declared lengths honoured, truncation rejected, no bytes consumed beyond a declared length, no panic); datagram unpackers against a reference splitter on all sequences of <=3 catalogue records with garbage trailers and truncations. 4.9 M evaluations quick / 133 M thorough.",
    "bounded-exhaustive input enumeration against an independent reference decoder",
    "Trusted: the schema-driven reference parser in /verif/h/c18/ref.go; value domains per field are small finite sets.")

chk("C12", E3, "exploration",
    "Sender: every body length 0..64 x every MTU 1..66 through the real fragmentHandshake (partition, per-fragment bound, header consistency, round trip through the real FragmentBuffer). Receiver: FragmentBuffer against an independent byte-coverage reference for every message length <=6 (7), every composition into fragments, zero-length fragments at one or two of every boundary, every subset duplicated once, every distinct arrival permutation, one message and two interleaved messages, after AdvanceTo, plus retransmission of every fragment of delivered messages: 9.2 M arrival sequences quick / 115 M thorough. End-to-end small-MTU handshakes under faults are exercised by the 12-mtu100 variants of C01/C02.",
    "bounded-exhaustive operation-sequence enumeration against a reference model",
    "Trusted: the byte-coverage reference model in /verif/h/c12/model.go; overlapping re-partitions are outside the property's quantifier.")

chk("C04", E1, "model_checking",
    "On-path MITM with its own parser/re-framer over 32 handshake modes (key exchange x EMS x full/resumed x hello-verify x version): every cleartext handshake message in either direction x every field-level mutation of a per-message catalogue (thorough: plus every single-bit flip of every body: 151k executions), applied consistently to retransmissions; oracle: no endpoint that sent or received an altered message reports success and no completing side holds a steered parameter, with the two RFC 6347 4.2.6 carve-outs made explicit.",
    "stateless model checking of the implementation: exhaustive message x field/bit mutation enumeration under a man-in-the-middle network")
chk("C05", E1, "model_checking",
    "For 10 suite classes x CID/padding/short-header layouts x payload lengths x direction: every single-bit flip of the whole datagram, every truncation, junk extension, every header-field edit, splice, reflection, epoch-0 forms, keyed wrong-CID records, CBC block runs and padding malleation, injected into an established connection (chained and one-per-fresh-connection); oracle: nothing delivered, nothing emitted, the genuine record still accepted exactly once afterwards. 155k executions quick / 656k thorough.",
    "stateless model checking of the implementation: exhaustive single-record forgery enumeration against the real receiver")

chk("C07", E1, "model_checking",
    "Every (suite/version/CID configuration, writing side, position of the application's Write(marker) before / during / after the handshake, follow-up in {none, second Write, Close, injected unprotected application data}): every datagram of the execution is searched raw for the marker, the decrypted Finished bodies and (1.3) protected handshake bytes; every record is decoded with reference keys and checked against the never-unprotected policy (no application data or Finished at epoch 0; DTLS 1.3: no plaintext handshake other than ClientHello/ServerHello/HRR, no plaintext ACK); Read never returns data that arrived unprotected; the exporter equals the reference exporter keyed by the session secret and differs from every catalogued public-only derivation.",
    "stateless model checking of the implementation: exhaustive placement of application writes with a wire-level plaintext monitor and a reference-keyed decoder")
chk("C08", E1, "model_checking",
    "16 handshake variants (8 with every quiescent point of the default run, 8 decrypt-path variants at key-holding points) x attacked endpoint x point (or established) x input family: all byte strings of length <=1 (thorough: all 65 793 of length <=2), products of small per-field domains for record headers and handshake headers (type x length x message_seq {0,cur-1,cur,cur+1,ffff} x offset x fragment length), every truncation and single-byte corruption of captured genuine datagrams, key-less CBC constructions, ~150 authenticated malformed contents forged with reference keys, floods of 2000 datagrams (future epochs, fragments, messages, undecryptable records); injected one at a time into a live association with a liveness check and the fixed memory limits after each; then the genuine handshake must complete and one payload flow each way; panics are attributed to the single input (child process / journal).",
    "stateless model checking of the implementation: exhaustive injection of a bounded hostile-datagram grammar at every handshake state, with liveness and memory-bound oracles")
chk("C09", E1, "model_checking",
    "Every (suite class x CID x version, sending side, ordered selection of <=3 (4) concurrent operations from {3 Writes, peer retransmission arriving, UpdateKeys, Close} started at one quiescent point, emission hold none/0/1/2 with a Write queued behind the held write lock) plus the 2^48 boundary; every record of the execution is decoded with reference keys and (epoch, sequence) must strictly increase per sender and epoch in emission order; writes past 2^48-1 must fail and emit nothing. Lock-granularity interleavings are not enumerated here; export/import continuity is C19's.",
    "stateless model checking of the implementation: exhaustive concurrent-operation placement with a reference-keyed (epoch, sequence) monitor")

chk("C15", E1, "model_checking",
    "172 configurations (CID length pairs {none,0,1,4,8}^2 x DTLS 1.2/1.3 x RRC negotiated or stripped by a hello hook x observed side) x every event sequence of depth <=2-3 (thorough 3-4) over a 19-event alphabet (re-sourced, replayed, stale, forged, mis-wrapped, wrong-CID records; path_response delivered / dropped / late / wrong address / wrong cookie; second candidate path; ticks; application writes) on real endpoints with three extra addresses, judged by a reference model of RFC 9146 §6 / RFC 9853 (acceptance needs the own CID, emitted records carry the peer's CID, RemoteAddr changes only after authentic-newest + timely matching response + RRC negotiated, 3x amplification bound); plus listener routing over CID size x listener state x a datagram catalogue x source addresses.",
    "stateless model checking of the implementation: exhaustive event-sequence enumeration against a reference migration model")

chk("C20", E1, "model_checking",
    "Established DTLS 1.3 pair: every operation sequence of length <=3 (thorough 4-5) over {UpdateKeys with/without RequestPeerUpdate on either side, Write on either side} started with overlaps, x every delivery schedule with <=1-2 deviations over the data-phase datagrams, late copies of every datagram, forged records under not-yet-authorised and older generations at every quiescent point, 4-5 updates in a row, CID and other suites; every emitted record is decrypted with keys the reference derives from the first application traffic secrets; oracle: UpdateKeys nil only after a covering ACK was delivered, exactly-once unmodified delivery, sending epoch never decreases, every record opens under a reference generation, unauthorised-epoch records are never delivered. Plus the E2 layer: UpdateKeys racing Writes under every schedule with <=1 (quick) / 3 (thorough) preemptions at the library's lock and atomic operations.",
    "stateless model checking of the implementation: exhaustive operation-sequence x schedule enumeration with a reference-keyed decoder; CHESS-style preemption-bounded interleaving exploration")

props = [json.loads(l) for l in open('/verif/properties.jsonl')]
PENDING = "check not built yet in this session (planned in DESIGN.md §5); not a claim that the technique cannot apply"
NA = {}
checks = [C[p['id']] for p in props if p['id'] in C]
na = [{"property_id": p['id'], "reason": NA.get(p['id'], PENDING)} for p in props if p['id'] not in C]
hooks = subprocess.run(['git', '-C', '/repo', 'log', '--format=%h %s'], capture_output=True, text=True).stdout.splitlines()
hook_commits = [l.split()[0] for l in hooks if l.split(' ', 1)[1].startswith('verif hooks')]
m = {"version": 1, "setup_cmd": "./setup.sh",
     "hooks": {"guard": "verif", "enable": "go test -tags verif (worker binaries are built by ./vcheck from /repo's working tree)",
               "baseline_off_cmd": "cd /repo && go test -mod=mod -vet=off -count=1 -timeout 25m ./...", "source_commits": hook_commits, "add_only": True},
     "engines": [
         {"name": E1, "path": "/verif/h/world", "serves_properties": sorted(k for k, v in C.items() if v['engine'] == E1),
          "kind_free_text": "deterministic environment-event explorer: real dtls.Conn endpoints in a testing/synctest bubble, harness-owned in-memory network, fake clock, seeded crypto RNG; stateless exhaustive search over deviation-bounded event sequences, sharded over 16 worker processes by ./vcheck; every violation is re-executed 5x and written as a replay file"},
         {"name": E3, "path": "/verif/h/run", "serves_properties": sorted(k for k, v in C.items() if v['engine'] == E3),
          "kind_free_text": "bounded-exhaustive differential enumeration of pure components (codecs, record protection, key schedule, fragment buffer) against independent reference code in /verif/h/refimpl"}],
     "checks": checks,
     "notes": "known_findings.txt lists genuine defects recorded (finding:) or repaired (fixed:); DESIGN.md explains every check. Properties not yet claimed are under not_applicable with the reason 'not built yet'.",
     "not_applicable": na}
json.dump(m, open('/verif/MANIFEST.json', 'w'), indent=1)
print("claimed:", [c['property_id'] for c in checks])
