#!/usr/bin/env python3
# summarize worker outputs of the last run of a property: tools/summ.py C01 [quick|thorough] [nviol]
import json,glob,sys,collections
prop=sys.argv[1]; tier=sys.argv[2] if len(sys.argv)>2 else 'quick'; nv=int(sys.argv[3]) if len(sys.argv)>3 else 10
cl=collections.Counter(); keys=collections.Counter(); viol=[]; nd=[]
tot=ran=sk=nt=0
for f in glob.glob(f'/verif/.build/out/Test{prop}.{tier}.a*.json'):
    r=json.load(open(f))
    tot=r['total_cases']; ran+=r['ran']; sk+=r['skipped']; nt+=r['nontrivial']
    for k,v in r['classes'].items(): cl[k]+=v
    for v in r['violations'] or []:
        keys[v['key']]+=1; viol.append(v)
    nd+=r.get('nondeterministic') or []
print(f'total={tot} ran={ran} skipped={sk} nontrivial={nt} violations={len(viol)} nondet={len(nd)}')
for k,v in sorted(cl.items(), key=lambda x:-x[1])[:40]: print(f'  {v:8d} {k}')
print('keys:',dict(keys))
import re
cat=collections.Counter()
for v in viol:
    m=re.search(r'mask=\S+: (.*)',v['text']); cat[(m.group(1) if m else v['text'])[:70]]+=1
for k,c in cat.most_common(25): print('  CAT',c,k)
for v in sorted(viol,key=lambda v:(len(v['case']),v['case']))[:nv]: print('V',v['key'],'|',v['case'],'|',v['text'][:400])
for n in nd[:5]: print('ND',n[:300])
