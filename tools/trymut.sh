#!/bin/sh
# tools/trymut.sh <worktree-with-change> <prop> [<prop>...] : run quick checks against another checkout (VCHECK_REPO), /repo untouched.
# Prints per property: exit code + first VIOLATION lines. Evidence files are restored afterwards.
wt=$1; shift
mkdir -p /verif/.build/evbak
for p in "$@"; do
  cp /verif/evidence/$p.json /verif/.build/evbak/$p.json 2>/dev/null
  VCHECK_REPO=$wt /verif/vcheck run $p --tier ${TIER:-quick} > /verif/.build/trymut.$p.out 2>&1
  code=$?
  echo "== $p exit=$code $(tail -1 /verif/.build/trymut.$p.out | cut -c1-160)"
  grep -A2 "^VIOLATION" /verif/.build/trymut.$p.out | grep -v "^--" | cut -c1-260 | head -${NVIOL:-6}
  grep "HARNESS-ERROR\|NONDET" /verif/.build/trymut.$p.out | cut -c1-300 | head -3
  cp /verif/.build/evbak/$p.json /verif/evidence/$p.json 2>/dev/null
done
