#!/bin/sh
# tools/stress.sh <pkg> <Test> <rounds>: run all 16 shards of a worker <rounds> times concurrently (oversubscribed CPUs)
# and report any nondeterminism / differing results between rounds.
pkg=$1; test=$2; rounds=${3:-4}
D=/verif/.build/stress; rm -rf $D; mkdir -p $D
for r in $(seq 1 $rounds); do
  for s in $(seq 0 15); do
    ( cd /verif/.build && GOMAXPROCS=1 GODEBUG=asyncpreemptoff=1 VCHECK_TIER=quick VCHECK_SHARD=$s VCHECK_NSHARDS=16 VCHECK_OUT=$D/r$r.s$s.json ./$pkg.test -test.run "^$test\$" -test.timeout 0 >/dev/null 2>&1 ) &
  done
done
wait
python3 - <<PY
import json,glob,collections
nd=0; sig=collections.defaultdict(set)
for f in glob.glob('$D/r*.s*.json'):
    r=json.load(open(f)); s=f.split('.s')[1].split('.')[0]
    nd+=len(r.get('nondeterministic') or [])
    for x in (r.get('nondeterministic') or [])[:2]: print('ND',x[:600])
    sig[s].add(json.dumps([r['classes'],len(r['violations'] or []),r['n_states'],r['n_transitions']],sort_keys=True))
print('files',len(glob.glob('$D/r*.s*.json')),'nondet',nd,'shards with differing results',[s for s,v in sig.items() if len(v)>1])
PY
rm -rf $D
