#!/bin/sh
# tools/altcase.sh <checkout> <pkg> <TestName> <case-id|match:substr> : build the worker of <pkg> against another checkout of
# pion/dtls (scratch worktree with a seeded change) and run one case verbosely (or all cases whose id contains substr,
# summary in /tmp/alt.json). Development aid; never used for evidence.
alt=$1; pkg=$2; tst=$3; sel=$4
export GOTOOLCHAIN=local GOFLAGS=-mod=mod GOPROXY=off
B=/verif/.build; sed "s#=> /repo#=> $alt#" /verif/h/go.mod > $B/altc.go.mod; cp $alt/go.sum $B/altc.go.sum
(cd /verif/h && go1.26.8 test -c -tags verif -vet=off -modfile=$B/altc.go.mod -o $B/$pkg.altc.test ./$pkg) || exit 2
cd /tmp
case "$sel" in
 match:*) VCHECK_MATCH="${sel#match:}" VCHECK_OUT=/tmp/alt.json GOMAXPROCS=1 GODEBUG=asyncpreemptoff=1 timeout 1800 $B/$pkg.altc.test -test.run "^$tst\$" -test.count=1 >/dev/null 2>&1
   jq -c '{ran:.ran, skipped:.skipped, nviol:(.violations|length), classes:.classes}' /tmp/alt.json; jq -r '.violations[]?|.text' /tmp/alt.json | cut -c1-400 | head -${NV:-8};;
 *) VCHECK_CASE="$sel" GOMAXPROCS=1 GODEBUG=asyncpreemptoff=1 timeout 300 $B/$pkg.altc.test -test.run "^$tst\$" -test.count=1 2>&1 | grep -v '^\s*$' | cut -c1-${W:-220} | tail -${N:-60};;
esac
