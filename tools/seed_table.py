#!/usr/bin/env python3
# Regenerates the seeded-changes table of DESIGN.md (between the SEEDED markers) from /verif/seeded/*/meta.json.
import json, glob, os, re
rows = []
for d in sorted(glob.glob('/verif/seeded/*')):
    mp = d + '/meta.json'
    if not os.path.exists(mp):
        continue
    m = json.load(open(mp))
    name = os.path.basename(d)
    conf = m.get('confirmed')
    c = 'yes' if isinstance(conf, dict) and conf.get('build') == 'ok' and conf.get('existing_suite_with_change') == 'ok' and conf.get('demo_with_change') == 'fail' and conf.get('demo_without_change') == 'pass' else str(conf)
    caught = '; '.join(f"**{k}**: {v}" for k, v in m['caught_by'].items())
    rows.append(f"| `{name}` | {m['breaks_property']} | {m['file']}: {m['what']} | {m['needs']} | {c} | {caught} |")
tab = "| seeded change | property | what it changes | what it needs to manifest | confirmed | caught by |\n|---|---|---|---|---|---|\n" + "\n".join(rows)
p = '/verif/DESIGN.md'
s = open(p).read()
if 'SEEDED_TABLE' in s:
    s = s.replace('SEEDED_TABLE', '<!-- SEEDED-BEGIN -->\n' + tab + '\n<!-- SEEDED-END -->')
else:
    s = re.sub(r'<!-- SEEDED-BEGIN -->.*<!-- SEEDED-END -->', lambda _: '<!-- SEEDED-BEGIN -->\n' + tab + '\n<!-- SEEDED-END -->', s, flags=re.S)
open(p, 'w').write(s)
print(len(rows), 'rows')
