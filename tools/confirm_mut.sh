#!/bin/sh
# tools/confirm_mut.sh <name> <agent worktree> : independently confirm a seeded change in a FRESH scratch worktree:
#  builds, full existing suite passes with the change, demo fails with it and passes without it.
# Writes /verif/seeded/<name>/{patch.diff,<demo files>,confirm.log}; prints a summary line. Removes the scratch worktree.
name=$1; src=$2
out=/verif/seeded/$name; mkdir -p $out
cp $src/_out/patch.diff $out/patch.diff || exit 2
cp $src/_out/NOTES.md $out/NOTES.md 2>/dev/null
v=/tmp/mutv/$name; rm -rf $v; mkdir -p /tmp/mutv
git -C /repo worktree add -q $v HEAD || exit 2
log=$out/confirm.log; : > $log
cd $v
if ! git apply $out/patch.diff >>$log 2>&1; then echo "$name: PATCH DOES NOT APPLY"; git -C /repo worktree remove --force $v; exit 1; fi
build=ok; go build ./... >>$log 2>&1 || build=FAIL
# full existing suite with the change (demo not yet present)
suite=ok; go test -mod=mod -vet=off -count=1 -timeout 25m ./... > $out/suite_with_change.log 2>&1 || suite=FAIL
if [ $suite = FAIL ]; then
  # timing-sensitive tests: re-run failing packages once
  pk=$(grep "^FAIL" $out/suite_with_change.log | awk '{print $2}' | grep pion | sort -u)
  suite=ok
  for q in $pk; do go test -mod=mod -vet=off -count=1 -timeout 25m $q >> $out/suite_retry.log 2>&1 || suite=FAIL; done
fi
# demo files: untracked *_test.go files of the agent's worktree
demos=$(cd $src && git status --short | grep '^??' | awk '{print $2}' | grep '_test.go$')
with=none; without=none
for d in $demos; do
  mkdir -p $(dirname $v/$d); cp $src/$d $v/$d; cp $src/$d $out/$(echo $d | tr / _)
done
pkgs=$(for d in $demos; do echo ./$(dirname $d); done | sort -u)
with=pass; for i in 1 2; do go test -mod=mod -vet=off -count=1 -timeout 10m $pkgs -run "${RUNPAT:-Demo|demo|ZZ|Zz|zz}" >> $out/demo_with_change.log 2>&1 || with=fail; done
git apply -R $out/patch.diff >>$log 2>&1
without=pass; for i in 1 2; do go test -mod=mod -vet=off -count=1 -timeout 10m $pkgs -run "${RUNPAT:-Demo|demo|ZZ|Zz|zz}" >> $out/demo_without_change.log 2>&1 || without=fail; done
cd /; git -C /repo worktree remove --force $v
echo "$name: build=$build suite_with_change=$suite demo_with_change=$with demo_without_change=$without demos=[$demos]" | tee -a $log
