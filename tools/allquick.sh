#!/bin/sh
# tools/allquick.sh [tier] : run every claimed check once; print one line per property.
tier=${1:-quick}
for p in C01 C02 C03 C04 C05 C06 C07 C08 C09 C10 C11 C12 C13 C14 C15 C16 C17 C18 C19 C20; do
  /verif/vcheck run $p --tier $tier > /verif/.build/all.$p.$tier.out 2>&1; code=$?
  echo "exit=$code $(tail -n 1 /verif/.build/all.$p.$tier.out | cut -c1-230)"
done
