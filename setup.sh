#!/bin/sh
# setup_cmd: build the driver and warm the Go build cache for the workers (offline, from disk only).
set -e
D="$(cd "$(dirname "$0")" && pwd)"
export GOTOOLCHAIN=local GOFLAGS=-mod=mod GOPROXY=off
GO=go1.26.8
command -v $GO >/dev/null 2>&1 || GO=/opt/veriftools/go1.26.8/bin/go
mkdir -p "$D/bin" "$D/.build" "$D/evidence"
(cd "$D/cmd/vcheck" && $GO build -o "$D/bin/vcheck" .)
cp /repo/go.sum "$D/h/go.sum"
cd "$D/h"
for pkg in $(ls -d */ | tr -d /); do
  # e2 is built by the driver with a build overlay (tags "verif e2"); it has nothing to warm here
  if ls $pkg/*_test.go >/dev/null 2>&1 && [ "$pkg" != "refimpl" ] && [ "$pkg" != "e2" ]; then
    # warming only: a package that does not build is reported by its own check, not here
    $GO test -c -tags verif -vet=off -o "$D/.build/$pkg.test" ./$pkg || echo "warn: $pkg does not build yet"
  fi
done
echo setup ok
